#!/usr/bin/env python3
"""Writes seeded/<id>/meta.json from the sub-agent's notes.md and the result of tools/seeded_eval.sh (eval.json).
Authoring aid; never run by a check."""
import json
import os
import re
import sys

V = os.path.dirname(os.path.dirname(os.path.abspath(__file__)))
props = {}
for l in open(os.path.join(V, "properties.jsonl")):
    d = json.loads(l)
    props[d["id"]] = d["title"]

for d in sorted(os.listdir(os.path.join(V, "seeded"))):
    p = os.path.join(V, "seeded", d)
    if not os.path.isdir(p) or not os.path.exists(os.path.join(p, "eval.json")):
        continue
    prop = d[:3]
    notes = open(os.path.join(p, "notes.md")).read() if os.path.exists(os.path.join(p, "notes.md")) else ""
    ev = json.load(open(os.path.join(p, "eval.json")))
    files = sorted(set(re.findall(r"^\+\+\+ b/(\S+)", open(os.path.join(p, "patch.diff")).read(), re.M)))
    meta = {
        "id": d,
        "property_broken": prop,
        "property_title": props[prop],
        "origin": (open(os.path.join(p, "origin.txt")).read().strip() if os.path.exists(os.path.join(p, "origin.txt")) else
                   "written by an independent sub-agent that saw only the property text and its own scratch worktree of /repo "
                   "(nothing from /verif)"),
        "files_changed": files,
        "what_and_what_it_needs_to_manifest": notes.strip(),
        "confirmed_in_scratch_worktree": {
            "command": "tools/seeded_eval.sh seeded/%s" % d,
            "existing_test_suite_with_change": ev.get("baseline"),
            "demo_exit_status_without_change": ev.get("demo_clean_rc"),
            "demo_exit_status_with_change": ev.get("demo_mutant_rc"),
        },
        "checks_run_quick_tier": sorted(ev.get("caught_by", []) + ev.get("silent", [])),
        "caught_by": ev.get("caught_by", []),
        "silent": ev.get("silent", []),
    }
    fp = os.path.join(p, "eval_first.json")
    if os.path.exists(fp):
        f = json.load(open(fp))
        if "target_check_rc" in f:      # round 1: the first complete version of the target check
            meta["first_pass"] = {"what": "target check of the first complete /verif version (commit a6318a9), before any strengthening",
                                  "reported": f["target_check_rc"] == 1,
                                  "note": ("found but not reported: the single work item did not reproduce the history-dependent fault "
                                           "when re-executed in another process; fixed by per-task process isolation")
                                  if f["target_check_rc"] == 2 else ""}
        else:                           # rounds 2 and 3: checks as they were when the agents of that round delivered
            r3 = d[3] in "ef"
            r4 = d[3] in "gh"
            r5 = d[3] in "ij"
            r6 = d[3] in "kl"
            r7 = d[3] in "mno"
            meta["first_pass"] = {"what": ("checks as committed when the seventh-round changes were delivered (commit e836afd), before the seventh "
                                           "strengthening") if r7 else ("checks as committed when the sixth-round changes were delivered (commit 2cb68a9), before the sixth "
                                           "strengthening") if r6 else ("checks as committed when the fifth-round changes were delivered (commit 06002f0), before the fifth "
                                           "strengthening") if r5 else ("checks as committed when the fourth-round changes were delivered (commit bd962ca; C08-C11, C19: 8c00d0e), before the "
                                           "fourth strengthening") if r4 else
                                          ("checks as committed when the third-round changes were delivered (commit 4361130 for C01-C03, C05, "
                                           "C07-C09, C12-C14, C16, C17; commit 4759e5b for the others), before the third strengthening") if r3 else
                                          ("checks as committed when the second-round changes were delivered (commit bbd2bb2 + 1), before the "
                                           "second strengthening"), "caught_by": f.get("caught_by", []), "silent": f.get("silent", []),
                                  "reported": prop in f.get("caught_by", [])}
            if f.get("note"):
                meta["first_pass"]["note"] = f["note"]
    if "first_pass" in meta and "caught_by" in meta["first_pass"]:
        # the last run covered the target check only; checks that caught the change earlier still do (checks were only extended)
        meta["caught_by"] = sorted(set(meta["caught_by"]) | set(meta["first_pass"]["caught_by"]))
        meta["silent"] = sorted((set(meta["silent"]) | set(meta["first_pass"]["silent"])) - set(meta["caught_by"]))
        meta["checks_run_quick_tier"] = sorted(set(meta["caught_by"]) | set(meta["silent"]))
    if os.path.exists(os.path.join(p, "verdict.txt")):
        meta["verdict"] = open(os.path.join(p, "verdict.txt")).read().strip()
    json.dump(meta, open(os.path.join(p, "meta.json"), "w"), indent=1)
    ok = ("264 passed" in (ev.get("baseline") or "")) and ev.get("demo_clean_rc") == 0 and ev.get("demo_mutant_rc") == 1
    print(d, "CONFIRMED" if ok else "NOT-CONFIRMED", "caught_by=", meta["caught_by"], "target_caught=", prop in meta["caught_by"])
