#!/bin/bash
# runs every check (tier $1, default quick) and prints one summary line each
T="${1:-quick}"
cd /verif
for i in $(seq -w 1 20); do
  s=$(date +%s)
  out=$(./vcheck C$i --tier "$T" 2>&1); rc=$?
  e=$(( $(date +%s) - s ))
  nv=$(echo "$out" | grep -c "^VIOLATION")
  nk=$(echo "$out" | grep -c "^KNOWN-FINDING")
  echo "C$i rc=$rc viol=$nv known=$nk ${e}s :: $(echo "$out" | tail -1 | cut -c1-110)"
done
