#!/usr/bin/env python3
"""Regenerates /verif/MANIFEST.json from the table below (kept valid at all times)."""
import json
import os

V = os.path.dirname(os.path.dirname(os.path.abspath(__file__)))

# property -> (technique, level text, level note, design ref)
CHECKS = {
    "C04": ("exhaustive enumeration of a finite domain (all permutations x parities x placeholder patterns) against a "
            "coordinate-derived symmetry oracle",
            "Complete enumeration: for each of the six descriptor classes every permutation of every position, every "
            "parity pair and every placeholder pattern (one to three lone pairs), over four identifier tuples (incl. the falsy id 0 and "
            "identifiers whose Python hashes collide; numpy-typed identifiers / parity must behave like plain ones), is executed on the real classes and compared with proper/improper "
            "symmetry groups computed from idealised coordinates. The domain is finite modulo renaming and is covered "
            "completely, so within the stated idealisation this decides the property.",
            "Trusted: the idealised figures of DESIGN.md 4.1 and numpy's linear algebra; atoms inside a descriptor are "
            "pairwise distinct; same-class comparisons only.",
            "DESIGN.md 5/C04, 4.1"),
}

EXPL = ("explicit-state breadth-first search over editing histories, executed on the real classes in lock-step with a "
        "reference model")
CHECKS["C09"] = (
    EXPL,
    "Explicit-state model checking of the four container classes: BFS over all histories of public editing calls "
    "(small identifier universe) to a stated depth, every transition executed on a fresh replay of the real object, "
    "states deduplicated on the raw private containers incl. container types, all public views compared with a dict-based "
    "reference model in every generated successor, read-only queries checked as self-loops. Reports states, transitions, "
    "depth and frontier per class and pass. The search starts from the empty graph and from fixed non-initial roots "
    "(role-carrying bonds, a four-atom skeleton with descriptors, with stereo changes); long deterministic histories on one "
    "live object complement the depth bound; a second identifier universe (identifiers whose Python hashes collide with each other, "
    "with the relabelling target and with the never-added identifiers) is searched two levels less deep.",
    "Trusted: the reference model (smgverif/model/refgraph.py) and the well-formedness table of DESIGN.md 4.3; bounds: "
    "3-4 atom identifiers, elements {C,H}, depth per class as reported in the evidence.",
    "DESIGN.md 3, 5/C09")
CHECKS["C19"] = (
    EXPL + "; every ill-formed request injected in every reachable state",
    "Same explorer as C09; in every reachable state every ill-formed request of the kinds listed in the property "
    "(unknown atom/bond, self bond, descriptor or change on an unknown centre or on several/no centres, non-element atom "
    "type, wrong-typed reaction label (also an explicit None on add_bond), three-label stereo changes with one foreign centre, deleting atom_type, deleting absent things) and every look-up about absent things "
    "is executed on the real object: it must raise (ill-formed) and the full normalised snapshot must be identical.",
    "Trusted: reference model's accept/reject rules (DESIGN.md 4.3); same bounds as C09.",
    "DESIGN.md 3, 5/C19")

ENUM = "small-scope exhaustive input enumeration on the real classes against a brute-force oracle"
CHECKS["C01"] = (
    ENUM + " (same-graph-by-construction variants)",
    "Every spec of complete bounded universes of the four classes is pushed through every renaming (all n! bijections up to "
    "n=4/5), every insertion order family, and every symmetry-equivalent rewriting of every descriptor (all proper elements with "
    "equal parity, all improper ones with opposite parity), static and inside stereo changes; ==, reversed ==, is_isomorphic "
    "and reflexivity must hold on each. Empty, isolated-atom and disconnected graphs, 7/8-coordinate centres and "
    "graphs of 130 (thorough 260) atoms are in the universes. Library-derived twins (copy, construct, subgraph, compose, relabel "
    "round trip, JSON) and every sequence of two (thorough three) public mutator calls with hash/== evaluated after each call "
    "must equal a freshly built graph with the content the reference model predicts; every spec is also built with numpy-typed "
    "descriptor values.",
    "Trusted: refgraph/refstereo construct the variants; bounds: graphs up to 4-5 atoms completely, up to 14 atoms for the "
    "symmetric family; stereo-valid graphs only.",
    "DESIGN.md 5/C01, 4.1, 4.4")
CHECKS["C02"] = (
    ENUM + " (all ordered pairs, oracle = backtracking search over all atom bijections)",
    "All ordered pairs inside complete labelled universes (MolGraph n<=3 all x all, n=4 x representatives; thorough all 1.2M "
    "labelled pairs n<=4), representatives x representatives for larger universes of all four classes, single-feature "
    "mutations of symmetric graphs, all cross-class pairs, all 26 pairs of non-isomorphic graphs with <=7 vertices that colour "
    "refinement cannot separate under every renumbering, all octahedral stars, several stereo changes of one kind meeting at one atom, "
    "two-unit graphs against copies written with hash-colliding identifiers, "
    "and descriptor-class sequences over identical atom tuples: whenever the library says equal, a brute-force search must find a "
    "bijection preserving elements, bonds, bond roles, descriptors up to symmetry and stereo changes.",
    "Trusted: refiso (self-tested against n! enumeration) and refstereo; fully specified parities only.",
    "DESIGN.md 5/C02, 4.2")
CHECKS["C03"] = (
    ENUM + "; oracle-partition of complete labelled universes; fresh interpreters under a list of PYTHONHASHSEED values",
    "hash(G)==hash(G') on every same-graph variant of C01's enumeration, one hash per oracle isomorphism class in complete "
    "labelled universes, set/dict membership, hash of every mutator-call sequence of length <=2 (thorough 3) against a freshly "
    "built twin, and identical hash lines from fresh interpreter processes under each listed "
    "string-hash seed.",
    "Trusted: refiso/refstereo; the 2^32 seed space is cut to the listed seeds (quick 6, thorough 34).",
    "DESIGN.md 5/C03")
CHECKS["C16"] = (
    ENUM + " (all pairs of the three stated families; integer comparison of hashes)",
    "All pairs of class representatives whose (element, neighbour elements) multisets differ, all 70 element-distinct "
    "tetrahedral quadruples and all 784 XYC=CZW double bonds with 0-2 atom chains (R/S, E/Z), all pairs of reaction graph "
    "representatives whose reactant/product/TS multisets differ, every reaction vs its reverse, and all 15625 role assignments "
    "on four labelled atoms (three element assignments, both reaction classes) decided by hash buckets; elementary edits of "
    "hashed graphs, of their copies and of constructor copies: hashes must differ.",
    "Trusted: the multiset computed from the reference model; E/Z collisions of the unchanged tree are listed input by input "
    "in known_findings.json (pinned StereoMolGraph hash values forbid a repair).",
    "DESIGN.md 5/C16")

CHECKS["C05"] = (
    ENUM + " (set of all valid bijections from backtracking over atom bijections)",
    "For all ordered pairs of complete small universes and every label mode (default, elements, constant, degree, mismatching, "
    "caller labels with colliding hashes) / stereo flag combination (flags also as numpy.bool_ / 1) the full list yielded "
    "by vf2pp_all_isomorphisms is compared as a set with the set of valid bijections found by an independent backtracking "
    "search: no invalid mapping, none missing, none twice; reaction graphs with several stereo changes of one kind meeting at one atom; symmetric graphs up to 14 atoms against themselves and relabelled "
    "copies; topological_symmetry_number against the number of stereo-preserving automorphisms.",
    "Trusted: refiso/refstereo; full-graph mode; bond roles are not part of the function's notion of structure.",
    "DESIGN.md 5/C05")

CHECKS["C06"] = (
    ENUM + " (reference mirror image + brute-force search for an isomorphism onto it)",
    "Every stereo spec of the universes (all descriptor classes, all stereoisomers, placeholders in atom, axis and planar-bond "
    "descriptors, unspecified parity, axis chirality (also two axes in one molecule), cages whose centres have ring neighbours only, "
    "numpy-typed descriptor values, stereo changes on atoms and bonds, with attributes): enantiomer() must equal the reference mirror image, leave "
    "the original untouched, be an involution, and g == g.enantiomer() iff the oracle finds an isomorphism onto the mirror.",
    "Trusted: refgraph.mirror / refstereo / refiso.", "DESIGN.md 5/C06")
CHECKS["C08"] = (
    ENUM + " (all reactant/product/TS triples over a common atom set)",
    "All triples of bond sets on n<=3 atoms (n=4 with bounded bond count) with TS absent or any superset, and all 4^3 "
    "combinations of {none, isomer 1, isomer 2, other class} on one atom centre and one bond in R, P and TS (the bond unchanged, "
    "formed or broken): reactant()/product() "
    "reproduce R/P, formed/broken/fleeting bonds are the set differences, reverse_reaction swaps sides incl. stereo, keeps "
    "fleeting bonds/stereo and is an involution.",
    "Trusted: reference model; the stereo of the reconstructed TS and non-role attributes are not compared.", "DESIGN.md 5/C08")
CHECKS["C10"] = (
    ENUM + " (sources x derivations x every single follow-up edit x both sides; snapshot of the untouched side)",
    "For each source spec of all classes with attributes/descriptors/changes, each derivation (copy, copy-construct incl. "
    "cross-class, relabel copy, subgraph, compose, enantiomer, reverse_reaction, reactant, product, JSON) and each single edit "
    "from the full mutator menu (incl. in-place relabelling and the in-place change of a list / nested dict stored as attribute "
    "value, also inside a tuple) applied to the derived graph and to the source, the other graph's snapshot must not change.",
    "Trusted: snapshot of private containers; single follow-up edits only.", "DESIGN.md 5/C10")
CHECKS["C11"] = (
    ENUM + " (specs x all injective total/partial mappings x copy/in-place; differential follow-ups against a fresh build)",
    "Every spec with <=5 atoms x all total permutations, pool injections and all partial mappings x copy/in-place: result equals "
    "the reference renaming (also onto hash-colliding identifiers, for a 7-coordinate centre and 133-atom graphs, with numpy-typed values and back; graphs with two / four stereo centres or two stereo bonds under mappings that send one centre to the old label of another), copy and in-place agree, the inverse mapping restores the original, and every follow-up edit / "
    "==/hash/matrix/components behaves as on a freshly built graph with the same labelled content.",
    "Trusted: refgraph.relabel; mappings with injective induced total map only.", "DESIGN.md 5/C11")
CHECKS["C15"] = (
    ENUM + " (all specs x three identifier pools; snapshot identity after the round trip)",
    "Every spec of all four universes (every descriptor class, parity incl. None, placeholders, formed/broken/fleeting bonds, all 7 "
    "kind combinations of atom and bond stereo changes, empty graph) in three identifier pools (0..n-1, negative, >=2^31), once "
    "more with attributes outside the format on every atom and bond, with hash-colliding identifiers, with static bond descriptors "
    "on bonds that carry a role, with centres that carry a static descriptor and stereo changes: "
    "deserialize(serialize(g)) has the same class, an identical snapshot, compares equal and hashes equal.",
    "Trusted: snapshot; attributes other than element/role are not part of the format.", "DESIGN.md 5/C15")
CHECKS["C17"] = (
    ENUM + " (all subsets x 7 container kinds; all 3^n two-piece covers; all component orders)",
    "Every spec with <=5 atoms x every subset S passed as list/tuple/set/frozenset/dict keys/generator/iterator and with repeated "
    "atoms: subgraph equals "
    "the induced labelled subgraph of the reference model; components equal the union-find partition; compose over all 3^n "
    "covers by two (overlapping) pieces equals the labelled union with later-wins and leaves the pieces unchanged, also when the second piece carries other isomers on the shared centres (both orders); centres whose broken / formed / fleeting descriptors name different atom sets; centres with a bonded neighbour outside the descriptor; composing the component subgraphs in every "
    "order reproduces the graph; graphs of 126-300 (thorough 1100) atoms: components, node components, compose of the "
    "component subgraphs, a large induced subgraph; two / three identical fragments composed in every order.",
    "Trusted: refgraph.subgraph/compose/components.", "DESIGN.md 5/C17")

CHECKS["C07"] = (
    "exhaustive enumeration of atom permutations x a finite rigid-motion / reflection / noise grid; differential oracle",
    "Guarded geometries (templates of all five perception paths, the same templates among spectator atoms with identifiers "
    "scattered by affine index maps mod 23, repository XYZ data, embedded organics) under ALL atom "
    "permutations up to 7 atoms (families above), the 24 cube rotations composed with a generic rotation and translation, three "
    "reflections and three noise levels; the perceived graph renamed back must have the same bonds and spatially identical "
    "descriptors (mirror images under reflection) and every descriptor must name the centre and exactly its bonded neighbours; "
    "reaction triples with independently moved geometries; 288 atoms under six reorderings; a caller-supplied switching function on a "
    "five-coordinate carbon under all 720 orders (cut-off raised or set to 0.0, either key orientation); see-saw centres; alkenes twisted by 15 / 18 degrees; translations by 1e8 A; the caller's coordinate array overwritten after the Geometry was built.",
    "Trusted: harness-side general-position guard and refstereo; a finite grid of a continuum (VERIF_SEED picks the generic "
    "motions and noise vectors).", "DESIGN.md 5/C07")
CHECKS["C18"] = (
    ENUM + " (all connectivity matrices n<=4 x element lists; all valence-complete molecules up to 3/4 heavy atoms x atom orders)",
    "Structural part on every symmetric 0/1 matrix with n<=4 and every element list; chemical part on every connected neutral "
    "closed-shell multigraph of <=3 (thorough 4) heavy atoms from C,N,O,S(II/VI),P(III/V),halogens with H filled in, plus 61 "
    "listed aromatic/cumulated systems (incl. cross-conjugated bis-cumulenes) and all C4-C5 (thorough C6) hydrocarbons, each in all atom orders (small) or "
    "shifts/reversal/transpositions: standard valences, no charges, no radicals, support equals connectivity; the public path "
    "to_rdmol(generate_bond_orders=True) under three identifier schemes, both insertion orders and for graphs cut out with subgraph().",
    "Trusted: the enumerator's valence bookkeeping; RDKit as the carrier of the exported orders.", "DESIGN.md 5/C18")
CHECKS["C20"] = (
    ENUM + " (value grid x element cycle x comment lines; all 118x118 element pairs at both sides of the cut-off)",
    "XYZ write/read round trip (string route and UTF-8 file route) over a coordinate value grid (signs, magnitudes up to 1e6, half-ulp-of-print cases), all 118 "
    "elements, 1..1001 (thorough 10001) atoms and 11 comment lines; distance connectivity for all 13924 element pairs just below/above the cut-off "
    "and at distance 0 and 1e-9 x cut-off (coincident atoms), through the matrix API, the scalar API (also exactly at the cut-off "
    "and one ulp below) and MolGraph.from_geometry; invariance under rigid motion and atom permutation.",
    "Trusted: the covalent radii table (read as data).", "DESIGN.md 5/C20")

CHECKS["C12"] = (
    ENUM + " (all permutation labels x all atom renumberings x RDKit-written re-spellings x converter options)",
    "Every TH/SP/TB/OH permutation label of a complex with pairwise distinct ligands under all n! RenumberAtoms orders, every "
    "rooted SMILES re-spelling (which changes neighbour order and label) and the converter option combinations: equal graphs and "
    "hashes inside a stereoisomer, 2/3/20/30 pairwise unequal classes across labels; organic molecules: all stereoisomers x "
    "renumbering family x rooted re-spellings (incl. 15 charged delocalised species whose resonance forms differ, macrocyclic E/Z bonds, benzo-fused medium rings); map-number "
    "import equals the renamed index import; class-level entry points agree with the converter.",
    "Trusted: RDKit 2024.09.3 (RenumberAtoms, SMILES writer/reader for non-tetrahedral stereo, EnumerateStereoisomers).",
    "DESIGN.md 5/C12")
CHECKS["C13"] = (
    ENUM + " (every descriptor ordering x parity of every coordination class, two identifier pools)",
    "All 48/48/24/240/1440 orderings-and-parities of tetrahedral (with and without lone pair), square planar, trigonal "
    "bipyramidal and octahedral stars in two identifier pools with permuted insertion order, two-unit graphs, chains of two / "
    "three directly bonded coordination centres of every class pair, centres with a stereogenic ligand atom, E/Z chains of 130 / "
    "262 atoms, double bonds in three-membered rings, dihydrogen, an E/Z alkene with a remote radical centre, bond-order flag also as numpy.bool_, all E/Z double "
    "bonds over 5 substituent elements with regenerated bond orders, and imported organics: export then import by atom-map "
    "number reproduces atoms, elements, bonds and spatially identical descriptors; export leaves the graph unchanged.",
    "Trusted: RDKit as the carrier; identifiers must be positive (atom-map numbers).", "DESIGN.md 5/C13")
CHECKS["C14"] = (
    ENUM + " (all stereoisomers x embedding seeds; all ligand placements on SP/TB/OH templates x bond orders x noise)",
    "Every stereoisomer of the listed organics embedded with fixed ETKDG seeds, in the parsed atom order and renumbered by "
    "RDKit (reversed, rotated): annotation graph equals coordinate graph after "
    "removing planar-bond descriptors of non-double bonds; for SP/TB/OH every placement of distinct ligands on the template "
    "vertices (24/120/720) x bond-creation orders x centre position x noise: the label RDKit assigns from 3D, imported, gives a "
    "descriptor spatially identical to the one perceived from the same coordinates; elongated octahedra perceived with a "
    "caller-supplied switching function; octahedra with heavy ligands and bent axes; every label also imported by atom-map number; every Geometry is built from a scratch array that is overwritten afterwards.",
    "Trusted: RDKit embedding and AssignStereochemistryFrom3D; guarded/flattened/short-contact conformers are skipped and "
    "counted.", "DESIGN.md 5/C14")

NOT_YET = {
}

ALL = ["C%02d" % i for i in range(1, 21)]


def main():
    checks = []
    for p in ALL:
        if p not in CHECKS:
            continue
        tech, text, note, ref = CHECKS[p]
        checks.append({
            "property_id": p,
            "quick_cmd": f"./vcheck {p} --tier quick",
            "thorough_cmd": f"./vcheck {p} --tier thorough",
            "evidence_file": f"/verif/evidence/{p}.json",
            "replay_cmd_template": f"./vcheck {p} --replay {{path}}",
            "engine": "smgverif",
            "level_claimed": {"category": "model_checking", "text": text, "design_ref": ref},
            "level_note": note,
            "technique": tech,
        })
    na = [{"property_id": p, "reason": NOT_YET.get(p, "check not built yet in this round (planned: bounded exhaustive "
                                                      "enumeration, see DESIGN.md section 5); not claimed")}
          for p in ALL if p not in CHECKS]
    m = {
        "version": 1,
        "setup_cmd": "bash tools/setup.sh",
        "hooks": {
            "guard": "STEREOMOLGRAPH_VERIF",
            "enable": "no source hooks are needed: every observation is made from outside through the public API and by "
                      "reading the __slots__ containers; checks import /repo/src directly (PYTHONPATH), so they always "
                      "run the current working tree",
            "baseline_off_cmd": "cd /repo && /venv/bin/python -m pytest -ra -q -p no:cacheprovider --timeout=900 "
                                "--continue-on-collection-errors",
            "source_commits": [],
            "add_only": True,
        },
        "engines": [{
            "name": "smgverif",
            "path": "/verif/smgverif",
            "serves_properties": [c["property_id"] for c in checks],
            "kind_free_text": "hand-written explicit-state / small-scope exhaustive explorer in Python running directly on "
                              "the implementation, with independent reference models (refstereo, refiso, refgraph)",
        }],
        "checks": checks,
        "not_applicable": na,
        "notes": "All checks are bounded exhaustive explorations executed on the real classes (see DESIGN.md). "
                 "known_findings.json lists genuine defects of the tree that are recorded rather than repaired.",
    }
    with open(os.path.join(V, "MANIFEST.json"), "w") as f:
        json.dump(m, f, indent=1)
    print("MANIFEST.json:", len(checks), "checks,", len(na), "not applicable")


if __name__ == "__main__":
    main()
