#!/bin/bash
# usage: tools/try_mutant.sh <seeded id> <check> [<check> ...]   - fast loop while strengthening a check: applies the
# patch in a scratch worktree and runs the given quick checks against it (no baseline, no demo)
ID="$1"; shift
W=$(mktemp -d /tmp/tm.XXXXXX)
git -C /repo worktree add -q --detach "$W" HEAD || exit 2
trap 'git -C /repo worktree remove --force "$W" 2>/dev/null; rm -rf "$W"' EXIT
(cd "$W" && git apply "/verif/seeded/$ID/patch.diff") || { echo "patch does not apply"; exit 3; }
cd /verif
for c in "$@"; do
  out=$(SMG_SRC="$W/src" ./vcheck "$c" --tier quick --no-evidence 2>&1); rc=$?
  echo "[$ID] $c rc=$rc violations=$(echo "$out" | grep -c '^VIOLATION')"
  echo "$out" | grep -B1 "^VIOLATION" | grep -v "^VIOLATION" | grep -v "^--" | head -3 | cut -c1-260
  [ $rc -ge 2 ] && echo "$out" | tail -3 | cut -c1-300
done
