#!/usr/bin/env python3-vt
"""Authoring aid (never run by a check): writes smgverif/data/wl_pairs.json - every set of >= 2 pairwise non-isomorphic graphs with
at most 7 vertices (networkx Graph Atlas, complete up to 7 vertices) that 1-dimensional Weisfeiler-Lehman colour refinement cannot
tell apart.  The check re-validates each class at run time with its own refinement and its own brute-force isomorphism oracle."""
import json
import os
from collections import defaultdict

import networkx as nx


def wl(G):
    col = {v: 0 for v in G}
    for _ in range(len(G) + 1):
        new = {v: (col[v], tuple(sorted(col[u] for u in G[v]))) for v in G}
        ids = {k: i for i, k in enumerate(sorted(set(new.values())))}
        col = {v: ids[new[v]] for v in G}
    # canonical description of the stable colouring: multiset of (colour signature unfolded)
    sig = {v: (G.degree(v),) for v in G}
    for _ in range(len(G) + 1):
        sig = {v: (sig[v], tuple(sorted(sig[u] for u in G[v]))) for v in G}
    return tuple(sorted(map(repr, sig.values())))


classes = defaultdict(list)
for G in nx.graph_atlas_g():
    if len(G) < 4 or G.number_of_edges() == 0:
        continue
    classes[(len(G), G.number_of_edges(), wl(G))].append(G)
out = []
for k, gs in sorted(classes.items(), key=lambda kv: kv[0][:2]):
    if len(gs) < 2:
        continue
    out.append({"n": k[0], "edges": k[1], "graphs": [sorted(map(list, G.edges())) for G in gs]})
p = os.path.join(os.path.dirname(os.path.dirname(os.path.abspath(__file__))), "smgverif", "data", "wl_pairs.json")
json.dump(out, open(p, "w"))
print(len(out), "classes,", sum(len(c["graphs"]) for c in out), "graphs,", sum(len(c["graphs"]) * (len(c["graphs"]) - 1) // 2 for c in out), "pairs")
