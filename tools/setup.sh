#!/bin/bash
# MANIFEST.setup_cmd: nothing to build; byte-compile the framework and run the oracle self-tests.
cd "$(dirname "$0")/.." || exit 2
export PYTHONPATH=/verif:/repo/src PYTHONHASHSEED=0
/venv/bin/python -m compileall -q smgverif >/dev/null || exit 1
/venv/bin/python -W ignore -m selftest.run || exit 1
echo setup-ok
