#!/bin/bash
# Runs the full pinned baseline on every commit of /repo in the range $1 (e.g. c542f2f..HEAD), each in a scratch
# worktree under /tmp that is removed afterwards.  Prints one line per commit.
RANGE="${1:-c542f2f..HEAD}"
for c in $(git -C /repo rev-list --reverse "$RANGE"); do
  W=$(mktemp -d /tmp/vc.XXXXXX)
  git -C /repo worktree add -q --detach "$W" "$c" || exit 2
  res=$(/verif/tools/baseline.sh "$W" 2>&1 | grep -E "^BASELINE|passed|failed" | tr '\n' ' ')
  echo "$(git -C /repo log -1 --format='%h %s' "$c" | cut -c1-80) :: $res"
  git -C /repo worktree remove --force "$W"
  rm -rf "$W"
done
