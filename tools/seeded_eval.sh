#!/bin/bash
# usage: tools/seeded_eval.sh <dir with patch.diff + demo.py> [checks...]
# Confirms a seeded change in a scratch worktree of /repo (outside /repo and /verif): applies the patch, runs the
# pinned baseline (must still pass), runs the demonstration with and without the change, then runs the given checks
# (default: all 20, quick tier) against the changed sources and reports which of them raise a VIOLATION.
# Writes <dir>/eval.json and removes the worktree afterwards.
D="$(cd "$1" && pwd)"; shift
CHECKS="$*"
[ -z "$CHECKS" ] && CHECKS="C01 C02 C03 C04 C05 C06 C07 C08 C09 C10 C11 C12 C13 C14 C15 C16 C17 C18 C19 C20"
W=$(mktemp -d /tmp/se.XXXXXX)
git -C /repo worktree add -q --detach "$W" HEAD || exit 2
cleanup() { git -C /repo worktree remove --force "$W" 2>/dev/null; rm -rf "$W"; }
trap cleanup EXIT
cd "$W" || exit 2
PYTHONPATH="$W/src" /venv/bin/python -W ignore "$D/demo.py" >/tmp/se_demo_clean.$$ 2>&1; demo_clean=$?
if ! git apply "$D/patch.diff"; then echo "PATCH DOES NOT APPLY"; exit 3; fi
PYTHONPATH="$W/src" /venv/bin/python -W ignore "$D/demo.py" >/tmp/se_demo_mut.$$ 2>&1; demo_mut=$?
base=$(/verif/tools/baseline.sh "$W" 2>&1 | grep -E "passed|failed" | tail -1)
caught=""; missed=""
cd /verif
for c in $CHECKS; do
  out=$(SMG_SRC="$W/src" timeout 1200 ./vcheck "$c" --tier quick --no-evidence 2>&1); rc=$?
  n=$(echo "$out" | grep -c "^VIOLATION")
  if [ "$n" -gt 0 ]; then caught="$caught $c"; echo "$out" | grep -B1 "^VIOLATION" | grep -v "^VIOLATION" | grep -v "^--" | head -3 | cut -c1-300 | sed "s/^/   [$c] /"; else missed="$missed $c"; fi
  [ "$rc" -ge 2 ] && echo "   [$c] rc=$rc (harness error / timeout): $(echo "$out" | tail -2 | cut -c1-200)"
done
echo "demo_clean_rc=$demo_clean demo_mutant_rc=$demo_mut baseline='$base' caught:[$caught ] silent:[$missed ]"
/venv/bin/python - "$D" "$demo_clean" "$demo_mut" "$base" "$caught" "$missed" <<'PY'
import json, sys
d, dc, dm, base, caught, missed = sys.argv[1:7]
json.dump({"demo_clean_rc": int(dc), "demo_mutant_rc": int(dm), "baseline": base, "caught_by": caught.split(),
           "silent": missed.split()}, open(d + "/eval.json", "w"), indent=1)
PY
rm -f /tmp/se_demo_clean.$$ /tmp/se_demo_mut.$$
