#!/usr/bin/env python3
"""Authoring aid (never run by a check): turn a --dump-viol file into known_findings.json entries.
usage: kf_from_dump.py <dump.json> <property> <id-prefix> "<what>" [sig-substring]"""
import json, sys, os
V = os.path.dirname(os.path.dirname(os.path.abspath(__file__)))
dump, prop, prefix, what = sys.argv[1:5]
sub = sys.argv[5] if len(sys.argv) > 5 else ""
d = json.load(open(dump))
kf = json.load(open(os.path.join(V, "known_findings.json")))
have = {e["id"] for e in kf["findings"]}
n = 0
for sig, v in d.items():
    if sub not in sig:
        continue
    n += 1
    i = f"{prefix}-{n}"
    while i in have:
        n += 1
        i = f"{prefix}-{n}"
    e = {"property": prop, "id": i, "status": "known", "what": f"{what} [{sig}]", "match": {"sig": sig}}
    if v["inputs"]:
        e["match"]["inputs"] = v["inputs"]
    kf["findings"].append(e)
    have.add(i)
json.dump(kf, open(os.path.join(V, "known_findings.json"), "w"), indent=1)
print("added", n)
