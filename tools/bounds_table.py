#!/usr/bin/env python3
"""Authoring aid: prints the DESIGN.md 10.4 table from the evidence files of the last run."""
import json, os
V = os.path.dirname(os.path.dirname(os.path.abspath(__file__)))
print("| check | tier | distinct cases | executions | wall | capped |\n|---|---|---|---|---|---|")
for i in range(1, 21):
    d = json.load(open(os.path.join(V, "evidence", "C%02d.json" % i)))
    c = d["coverage"]
    print("| C%02d | %s | %s | %s | %.0f s | %s |" % (i, d["tier"], f"{c['distinct_nontrivial']:,}".replace(",", " "),
          f"{c['evaluations']:,}".replace(",", " "), d["wall_s"], "yes" if c.get("capped") else "no"))
