#!/bin/bash
# Runs the pinned baseline suite of /repo (guard off) and prints a one-line summary.
# usage: tools/baseline.sh [repo_dir]   (default /repo; for a worktree pass its path: PYTHONPATH is pointed at its src)
R="${1:-/repo}"
OUT="$(mktemp /tmp/baseline.XXXXXX.xml)"
cd "$R" || exit 2
unset STEREOMOLGRAPH_VERIF
PYTHONPATH="$R/src" /venv/bin/python -m pytest -ra -q -p no:cacheprovider --timeout=900 --continue-on-collection-errors --junitxml="$OUT" >"$OUT.log" 2>&1
rc=$?
tail -n 3 "$OUT.log"
/venv/bin/python - "$OUT" <<'PY'
import sys, xml.etree.ElementTree as ET
r = ET.parse(sys.argv[1]).getroot()
ts = r if r.tag == 'testsuite' else r[0]
print('BASELINE tests=%s failures=%s errors=%s skipped=%s' % (ts.get('tests'), ts.get('failures'), ts.get('errors'), ts.get('skipped')))
PY
rm -f "$OUT"
[ "${KEEP_BASELINE_LOG:-0}" = 1 ] && echo "log: $OUT.log rc=$rc" || rm -f "$OUT.log"
exit $rc
