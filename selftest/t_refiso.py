"""backtracking isomorphism search vs n! enumeration"""
import itertools


def t_refiso_vs_brute():
    from smgverif.model import refiso as RI
    from smgverif.universe import graphs as U

    gs = []
    for n in range(0, 4):
        gs += U.mg_labelled(n, ("C", "H"))
    gs += U.reps(U.mg_labelled(4, ("C", "H")))[:40]
    n = 0
    for a, b in itertools.product(gs, repeat=2):
        if len(a.atoms) != len(b.atoms):
            continue
        x = sorted(map(lambda f: sorted(f.items()), RI.isomorphisms(a, b)))
        y = sorted(map(lambda f: sorted(f.items()), RI.brute_isomorphisms(a, b)))
        assert x == y, (U.describe(a), U.describe(b))
        n += 1
    st = [g for g in U.stars(4)][:60] + U.two_unit()[:30] + U.scrg_universe()[-40:]
    for a, b in itertools.product(st, repeat=2):
        if len(a.atoms) != len(b.atoms) or a.kind != b.kind or len(a.atoms) > 6:
            continue
        x = sorted(map(lambda f: sorted(f.items()), RI.isomorphisms(a, b)))
        y = sorted(map(lambda f: sorted(f.items()), RI.brute_isomorphisms(a, b)))
        assert x == y, (U.describe(a), U.describe(b))
        n += 1
    assert n > 1000
    # known class counts
    assert len(U.MG_reps(4, ("C", "H", "O"))) == 428 + 1, len(U.MG_reps(4, ("C", "H", "O")))


TESTS = [t_refiso_vs_brute]
