"""Self-tests of the oracles themselves (independent of the library under test)."""
import sys


def t_refstereo():
    from smgverif.model import refstereo as R

    exp = {"Tetrahedral": 12, "SquarePlanar": 8, "TrigonalBipyramidal": 6, "Octahedral": 24, "PlanarBond": 4,
           "AtropBond": 4}
    for c, n in exp.items():
        rot, imp = R.groups(c)
        assert len(rot) == n, (c, len(rot))
        # closure
        for a in rot:
            for b in rot:
                assert R.apply(a, b) in rot
        # Imp = Rot o m
        if imp - rot:
            m = min(imp - rot)
            assert {R.apply(a, m) for a in rot} == set(imp), c
            assert not (imp & rot)
        else:
            assert imp == rot
    iso = {"Tetrahedral": 2, "SquarePlanar": 3, "TrigonalBipyramidal": 20, "Octahedral": 30, "PlanarBond": 2,
           "AtropBond": 2}
    for c, n in iso.items():
        assert len(R.isomers(c, tuple(range(R.NPOS[c])))) == n, c


TESTS = [t_refstereo]


def main():
    import importlib

    for extra in ("selftest.t_refiso", "selftest.t_refgraph"):
        try:
            m = importlib.import_module(extra)
        except ModuleNotFoundError:
            continue
        TESTS.extend(m.TESTS)
    for t in TESTS:
        t()
        print("selftest ok:", t.__name__)
    return 0


if __name__ == "__main__":
    sys.exit(main())
