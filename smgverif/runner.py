"""Runner: parallel exhaustive enumeration, violation collection, known-finding matching,
evidence + replay writing, exit code.  See DESIGN.md section 2.

A check module (smgverif/checks/cXX.py) provides
    PROP            'C04'
    LEVEL           category written to the evidence file (default 'model_checking')
    RULE            str: how cases are enumerated / what makes one non-trivial
    ASSUMPTIONS     list[str]
    items(tier, seed) -> list of JSON-serialisable work items, simplest first   (or)
    drive(ctx)      custom driver (explorer checks); uses ctx.pmap / ctx.absorb
    run_item(item)  -> dict(evals=int, distinct=int, states=int, trans=int, outcomes={str:int},
                            viol=[dict(sig=, input=, what=, item=, detail=)], samples=[...])
"""
from __future__ import annotations

import argparse
import hashlib
import importlib
import json
import multiprocessing as mp
import os
import sys
import time
import traceback
from collections import Counter

from . import findings

VERIF = os.path.dirname(os.path.dirname(os.path.abspath(__file__)))


def jdefault(o):
    if isinstance(o, (set, frozenset)):
        return sorted(o, key=repr)
    if isinstance(o, tuple):
        return list(o)
    try:
        import numpy as np

        if isinstance(o, np.integer):
            return int(o)
        if isinstance(o, np.floating):
            return float(o)
        if isinstance(o, np.ndarray):
            return o.tolist()
    except Exception:
        pass
    return repr(o)


def _call_chunk(args):
    fn, items = args
    return [_call((fn, i)) for i in items]


def run_fresh(fn, item):
    """execute one work item in a freshly forked child (same conditions as inside the pool)"""
    ctx = mp.get_context("fork")
    pool = ctx.Pool(1, maxtasksperchild=1)
    try:
        return pool.apply(_call, ((fn, item),))
    finally:
        pool.terminate()
        pool.join()


def _call(args):
    fn, item = args
    try:
        return fn(item)
    except BaseException as e:  # a crashing work item is a harness error, never silently dropped
        return {"harness_error": f"{type(e).__name__}: {e}\n{traceback.format_exc()}", "item": item}


class Ctx:
    def __init__(self, prop, tier, seed, budget, workers):
        self.prop, self.tier, self.seed = prop, tier, seed
        self.budget, self.workers = budget, workers
        self.t0 = time.time()
        self.evals = 0
        self.distinct = 0
        self.states = 0
        self.trans = 0
        self.outcomes = Counter()
        self.viol = {}  # sig -> dict(count, inputs(set), first(list of records))
        self.samples = []
        self.capped = False
        self.cap_note = []
        self.harness_errors = []
        self.extra = {}
        self.items_total = 0
        self.items_done = 0

    # -- time --------------------------------------------------------------------------------
    def left(self):
        return self.budget - (time.time() - self.t0)

    # -- aggregation -------------------------------------------------------------------------
    def absorb(self, r):
        if r is None:
            return
        if "harness_error" in r:
            self.harness_errors.append(r)
            return
        self.evals += r.get("evals", 0)
        self.distinct += r.get("distinct", 0)
        self.states += r.get("states", 0)
        self.trans += r.get("trans", 0)
        for k, v in (r.get("outcomes") or {}).items():
            self.outcomes[k] += v
        for s in r.get("samples") or []:
            if len(self.samples) < 6:
                self.samples.append(s)
        for k, v in (r.get("extra") or {}).items():
            if isinstance(v, (int, float)):
                self.extra[k] = self.extra.get(k, 0) + v
            else:
                self.extra[k] = v
        for v in r.get("viol") or []:
            e = self.viol.setdefault(v["sig"], {"count": 0, "inputs": set(), "first": []})
            e["count"] += 1
            if v.get("input") is not None and len(e["inputs"]) < 20000:
                e["inputs"].add(v["input"])
            if len(e["first"]) < 3:
                e["first"].append(v)
            elif v.get("input") is not None:
                # keep one record per distinct input so an unlisted input can be replayed
                e.setdefault("by_input", {})
                if len(e["by_input"]) < 20000 and v["input"] not in e["by_input"]:
                    e["by_input"][v["input"]] = v

    def pmap(self, fn, items, chunksize=1, absorb=True):
        """Run fn over items on the worker pool, simplest first; stops dispatching at the budget."""
        items = list(items)
        self.items_total += len(items)
        out = []
        if not items:
            return out
        if self.workers <= 1 or len(items) == 1:
            for it in items:
                if self.left() <= 0:
                    self.capped = True
                    self.cap_note.append(f"budget hit after {self.items_done}/{self.items_total} items")
                    break
                r = run_fresh(fn, it)
                self.items_done += 1
                if absorb:
                    self.absorb(r)
                out.append(r)
            return out
        ctx = mp.get_context("fork")
        # every task (chunk of work items) runs in a freshly forked child of this process: library-level state
        # (module caches, class attributes, shared default arguments) never leaks from one task into another, so a
        # violation depends only on its own work item and re-executing that item reproduces it
        pool = ctx.Pool(min(self.workers, len(items)), maxtasksperchild=1)
        try:
            chunksize = max(1, int(chunksize))
            chunks = [(fn, items[i:i + chunksize]) for i in range(0, len(items), chunksize)]
            it = pool.imap(_call_chunk, chunks, 1)
            while True:
                left = self.left()
                if left <= 0:
                    raise mp.TimeoutError
                try:
                    rs = it.next(timeout=max(left, 0.01))
                except StopIteration:
                    break
                for r in rs:
                    self.items_done += 1
                    if absorb:
                        self.absorb(r)
                    out.append(r)
        except mp.TimeoutError:
            self.capped = True
            self.cap_note.append(f"budget {self.budget}s hit after {self.items_done}/{self.items_total} items "
                                 f"(items are ordered simplest-first; completed items were enumerated completely)")
        finally:
            pool.terminate()
            pool.join()
        return out


def _sighash(s):
    return hashlib.sha1(s.encode()).hexdigest()[:12]


def write_replay(prop, sig, rec):
    d = os.path.join(VERIF, "replays", prop)
    os.makedirs(d, exist_ok=True)
    key = sig if rec.get("input") is None else sig + "|" + str(rec.get("input"))
    p = os.path.join(d, _sighash(key) + ".json")
    doc = {"property": prop, "sig": sig, "input": rec.get("input"), "what": rec.get("what"),
           "item": rec.get("item"), "detail": rec.get("detail"),
           "replay_cmd": f"./vcheck {prop} --replay {os.path.relpath(p, VERIF)}"}
    it = rec.get("item") or {}
    if isinstance(it, dict) and "hist" in it and "kind" in it:
        # explorer violations: the history also as a plain script that needs neither the explorer nor the reference model
        try:
            from .explore import ops as _ops

            doc["standalone_py"] = _ops.to_python(it["kind"], it["hist"], it.get("op"))
        except Exception as e:          # never let the convenience script hide the violation
            doc["standalone_py"] = f"# could not be rendered: {e!r}"
    with open(p, "w") as f:
        json.dump(doc, f, indent=1, default=jdefault)
    return os.path.relpath(p, VERIF)


def replay(mod, path):
    with open(path if os.path.isabs(path) else os.path.join(VERIF, path)) as f:
        rep = json.load(f)
    fn = getattr(mod, "replay_item", None) or mod.run_item
    r = _call((fn, rep["item"]))
    if "harness_error" in r:
        print("HARNESS-ERROR during replay:", r["harness_error"])
        return 2
    hits = [v for v in r.get("viol") or [] if v["sig"] == rep["sig"]
            and (rep.get("input") is None or v.get("input") == rep.get("input"))]
    if hits:
        print(f"reproduced: {rep['sig']}  input={rep.get('input')}")
        print("  what:", hits[0].get("what"))
        print("  detail:", json.dumps(hits[0].get("detail"), default=jdefault)[:2000])
        print(f"VIOLATION property={rep['property']} replay={path}")
        return 1
    print(f"not reproduced: {rep['sig']} input={rep.get('input')} "
          f"(other violations in this item: {sorted({v['sig'] for v in r.get('viol') or []})})")
    return 0


def main(argv=None):
    ap = argparse.ArgumentParser()
    ap.add_argument("prop")
    ap.add_argument("--tier", default=os.environ.get("VERIF_TIER", "quick"), choices=["quick", "thorough"])
    ap.add_argument("--replay")
    ap.add_argument("--budget", type=float)
    ap.add_argument("--workers", type=int, default=int(os.environ.get("VERIF_WORKERS", "0")) or (os.cpu_count() or 4))
    ap.add_argument("--no-evidence", action="store_true")
    ap.add_argument("--dump-viol", help="authoring aid: write every violation signature with its inputs to this file")
    a = ap.parse_args(argv)
    prop = a.prop.upper()
    try:
        seed = int(os.environ.get("VERIF_SEED", "0"))
    except ValueError:
        seed = 0
    import stereomolgraph  # noqa: F401  (fail early, and share the import with forked workers)
    try:
        from rdkit import RDLogger

        RDLogger.DisableLog("rdApp.*")
    except Exception:
        pass

    mod = importlib.import_module(f"smgverif.checks.{prop.lower()}")
    if a.replay:
        return replay(mod, a.replay)

    budget = a.budget or getattr(mod, "BUDGET", {}).get(a.tier, 75 if a.tier == "quick" else 900)
    ctx = Ctx(prop, a.tier, seed, budget, a.workers)
    if hasattr(mod, "drive"):
        mod.drive(ctx)
    else:
        items = mod.items(a.tier, seed)
        ctx.pmap(mod.run_item, items, chunksize=getattr(mod, "CHUNK", 1))

    # ---- harness errors are never turned into verdicts ---------------------------------------
    if ctx.harness_errors:
        for h in ctx.harness_errors[:3]:
            print("HARNESS-ERROR:", h["harness_error"], "item=", json.dumps(h.get("item"), default=jdefault)[:500])
        print(f"{prop}: {len(ctx.harness_errors)} work items crashed inside the harness; no verdict")
        return 2

    if a.dump_viol:
        with open(a.dump_viol, "w") as f:
            json.dump({sig: {"count": e["count"], "inputs": sorted(e["inputs"]), "what": e["first"][0].get("what")}
                       for sig, e in sorted(ctx.viol.items())}, f, indent=1, default=jdefault)

    # ---- known findings ------------------------------------------------------------------------
    known = findings.load(prop)
    new = []  # (sig, record)
    matched = Counter()
    for sig, e in sorted(ctx.viol.items()):
        ents = [k for k in known if k["match"]["sig"] == sig]
        if not ents:
            new.append((sig, e["first"][0], e["count"]))
            continue
        listed_inputs = None
        for k in ents:
            if "inputs" not in k["match"]:
                listed_inputs = None
                matched[k["id"]] += e["count"]
                break
            listed_inputs = (listed_inputs or set()) | set(k["match"]["inputs"])
        else:
            # every matching entry restricts the inputs: anything outside the lists is new
            unl = sorted(i for i in e["inputs"] if i not in listed_inputs)
            n_l = len(e["inputs"]) - len(unl)
            if n_l:
                matched[ents[0]["id"]] += n_l
            recs = {r.get("input"): r for r in e["first"]}
            recs.update(e.get("by_input", {}))
            for i in unl[:20]:
                if i in recs:
                    new.append((sig, recs[i], 1))
            if unl and not any(i in recs for i in unl[:20]):
                new.append((sig, e["first"][0], len(unl)))
    for k in known:
        if matched[k["id"]]:
            print(f"KNOWN-FINDING: property={prop} {k['id']}: {k['what']}  [{matched[k['id']]} executions]")

    # ---- confirm + report new violations -------------------------------------------------------
    rc = 0
    n_viol = 0
    fn = getattr(mod, "replay_item", None) or getattr(mod, "run_item", None)
    for sig, rec, cnt in new[:40]:
        if fn is not None and rec.get("item") is not None:
            r2 = run_fresh(fn, rec["item"])
            ok = "harness_error" not in r2 and any(
                v["sig"] == sig and (rec.get("input") is None or v.get("input") == rec.get("input"))
                for v in r2.get("viol") or [])
            if not ok:
                print(f"HARNESS-ERROR: violation {sig} input={rec.get('input')} did not reproduce on re-execution; "
                      f"no verdict ({r2.get('harness_error', '')[:500]})")
                return 2
        path = write_replay(prop, sig, rec)
        print(f"  {sig}  x{cnt}  {rec.get('what')}")
        print(f"VIOLATION property={prop} replay={path}")
        n_viol += 1
        rc = 1
    if len(new) > 40:
        print(f"  ... and {len(new) - 40} more distinct violation signatures")

    # ---- evidence ------------------------------------------------------------------------------
    wall = time.time() - ctx.t0
    states = ctx.states or ctx.distinct
    trans = ctx.trans or ctx.evals
    cov = {
        "evaluations": int(ctx.evals),
        "distinct_nontrivial": int(ctx.distinct),
        "rule": getattr(mod, "RULE", ""),
        "samples": ctx.samples or [],
        "states": int(states),
        "transitions": int(trans),
        "traces_validated_against_impl": int(trans),
        "exhaustive": (not ctx.capped) and bool(getattr(mod, "EXHAUSTIVE", True)),
        "capped": ctx.capped,
        "cap_notes": ctx.cap_note,
        "work_items": ctx.items_done,
        "work_items_total": ctx.items_total,
        "distinct_outcomes": dict(sorted(ctx.outcomes.items())),
        "known_findings_matched": dict(matched),
        "violation_signatures": {s: e["count"] for s, e in sorted(ctx.viol.items())},
        "explanation": getattr(mod, "EXPLANATION", "") or (
            "Exploration runs directly on the implementation: every enumerated case / transition is an execution "
            "of the real classes compared with an independent reference model, so traces validated against the "
            "implementation equals transitions."),
    }
    cov.update(ctx.extra)
    ev = {
        "property_id": prop,
        "tier": a.tier,
        "seed": seed,
        "level": getattr(mod, "LEVEL", "model_checking"),
        "coverage": cov,
        "assumptions": list(getattr(mod, "ASSUMPTIONS", [])),
        "wall_s": round(wall, 2),
        "violations": n_viol,
    }
    if not a.no_evidence:
        os.makedirs(os.path.join(VERIF, "evidence"), exist_ok=True)
        with open(os.path.join(VERIF, "evidence", f"{prop}.json"), "w") as f:
            json.dump(ev, f, indent=1, default=jdefault)
    print(f"{prop} tier={a.tier} seed={seed} evals={ctx.evals} distinct={ctx.distinct} states={states} "
          f"transitions={trans} outcomes={dict(ctx.outcomes)} capped={ctx.capped} wall={wall:.1f}s "
          f"new_violations={n_viol} known={sum(1 for k in matched if matched[k])}")
    return rc


if __name__ == "__main__":
    sys.exit(main())
