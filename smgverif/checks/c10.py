"""C10 - derived graphs share no mutable state with their source (DESIGN.md 5/C10)."""
from __future__ import annotations

from functools import lru_cache

from ..explore import ops as OPS
from ..model import refgraph as RG
from ..model import refstereo as RS
from ..snapshot import diff, norm, snap
from ..universe import graphs as U
from . import eqcommon as E

PROP = "C10"
RULE = ("source graphs (universe specs of all four classes carrying atom and bond attributes, descriptors of every class and "
        "stereo changes of every kind) x every derivation (copy, copy-construction incl. cross-class, relabel_atoms(copy=True), "
        "subgraph, compose of one and of two graphs, enantiomer, reverse_reaction, reactant, product, JSON round trip) x every "
        "single follow-up edit (every mutator on every atom / bond / attribute key / descriptor slot / change slot present, plus "
        "additions, in-place relabellings, and the in-place change of a list / nested dict / list inside a tuple stored as attribute value), applied once to the derived graph and once to the source: the normalised snapshot of the untouched side must "
        "be identical before and after.  distinct = (source, derivation, edit, side) executions")
ASSUMPTIONS = ["sharing of immutable descriptor objects is allowed; only behaviour through the public API decides",
               "an edit that raises on its target is skipped (counted)"]
BUDGET = {"quick": 600, "thorough": 1200}
MG, SMG, CRG, SCRG = RG.MG, RG.SMG, RG.CRG, RG.SCRG


@lru_cache(None)
def sources(tier):
    S = []
    S += [g for g in U.MG_reps(4, ("C", "H", "O")) if 2 <= len(g.atoms) <= 3 and g.bonds][::2]
    S += [g for g in U.CRG_reps(3) if len(g.atoms) == 3 and g.bonds][::6]
    S += list(U.stars(5))[::9]
    S += list(U.two_unit())[::6]
    S += [g for g in U.scrg_universe("quick") if g.astereo or g.bstereo or g.achg or g.bchg][::(3 if tier == "quick" else 1)]
    S += [U.to_kind(g, SCRG) for g in U.two_unit()][::16]
    out = []
    for g in S:
        h = g.copy()
        ids = list(h.atoms)
        h.atoms[ids[0]]["x"] = 1
        h.atoms[ids[-1]]["y"] = "s"
        if h.bonds:
            h.bonds[next(iter(h.bonds))]["w"] = 2
        out.append(h)
    return out


def derivations(kind):
    D = ["copy", "construct", "relabel_copy", "relabel_identity_copy", "subgraph_all", "subgraph_part", "compose_one", "compose_two",
         "json", "construct_" + MG]
    if kind in (SMG, SCRG):
        D += ["enantiomer", "construct_" + SMG]
    if kind in (CRG, SCRG):
        D += ["reverse_reaction", "reactant", "product", "construct_" + CRG]
    if kind in (MG, SMG, CRG):
        D += ["construct_" + SCRG]
    if kind == MG:
        D += ["construct_" + SMG, "construct_" + CRG]
    return D


def derive(g, name):
    ids = list(g.atoms)
    if name == "copy":
        return g.copy()
    if name == "construct":
        return type(g)(g)
    if name.startswith("construct_"):
        return U.real_cls(name.split("_", 1)[1])(g)
    if name == "relabel_copy":
        return g.relabel_atoms({a: a + 50 for a in ids}, copy=True)
    if name == "relabel_identity_copy":
        return g.relabel_atoms({}, copy=True)
    if name == "subgraph_all":
        return g.subgraph(list(ids))
    if name == "subgraph_part":
        return g.subgraph(ids[:-1])
    if name == "compose_one":
        return type(g).compose([g])
    if name == "compose_two":
        h = g.relabel_atoms({a: a + 50 for a in ids}, copy=True)
        return type(g).compose([h, g])
    if name == "json":
        from stereomolgraph.experimental import JSONHandler

        return JSONHandler.json_deserialize(JSONHandler.json_serialize(g))
    if name == "enantiomer":
        return g.enantiomer()
    if name == "reverse_reaction":
        return g.reverse_reaction()
    if name == "reactant":
        return g.reactant()
    if name == "product":
        return g.product()
    raise KeyError(name)


def edits(m):
    """every single edit applicable to a graph with the content of reference graph m (ops in explorer format)"""
    ids = list(m.atoms)
    ed = []
    new = max(ids) + 100 if ids else 0
    for a in ids:
        ed.append(["set_atom_attribute", a, "x", 99])
        ed.append(["set_atom_attribute", a, "fresh", 1])
        ed.append(["set_atom_attribute", a, "atom_type", "Si"])
        for k in m.atoms[a]:
            if k != "atom_type":
                ed.append(["delete_atom_attribute", a, k])
        ed.append(["remove_atom", a])
        ed.append(["add_atom", a, "Ge"])
    ed.append(["add_atom", new, "C"])
    # in-place renaming: descriptor objects shared between source and derived graph must not be rewritten
    if ids:
        ed.append(["relabel_atoms", {"map": [[ids[0], new + 1]]}])
        ed.append(["relabel_atoms", {"map": [[a, a + 1000] for a in ids]}])
    if len(ids) >= 2:
        ed.append(["relabel_atoms", {"map": [[ids[0], ids[1]], [ids[1], ids[0]]]}])
        ed.append(["relabel_atoms", {"map": [[ids[-1], new + 2]]}])
    for b, d in m.bonds.items():
        x, y = sorted(b)
        ed.append(["set_bond_attribute", x, y, "w", 98])
        ed.append(["set_bond_attribute", x, y, "fresh", 1])
        for k in d:
            if k != "reaction":
                ed.append(["delete_bond_attribute", x, y, k])
        ed.append(["remove_bond", x, y])
        ed.append(["add_bond", x, y, {"kw": {"fresh": 3}}])
        if m.kind in RG.REACTION:
            ed.append(["set_bond_attribute", x, y, "reaction", "Change.FLEETING" if d.get("reaction") != "Change.FLEETING" else "Change.FORMED"])
            ed.append(["add_broken_bond", x, y])
    for i, a in enumerate(ids):
        for c in ids[i + 1:]:
            if frozenset((a, c)) not in m.bonds:
                ed.append(["add_bond", a, c])
                break
    if m.kind in RG.STEREO:
        for c, d in m.astereo.items():
            ed.append(["delete_atom_stereo", c])
            t = d[1]
            ed.append(["set_atom_stereo", OPS.D(d[0], (t[0], t[2], t[1]) + tuple(t[3:]), d[2])])
        for c, d in m.bstereo.items():
            ed.append(["delete_bond_stereo", sorted(c)])
            t = d[1]
            ed.append(["set_bond_stereo", OPS.D(d[0], (t[1], t[0]) + tuple(t[2:]), d[2])])
        if ids and len(ids) >= 2 and ids[0] not in m.astereo:
            ed.append(["set_atom_stereo", OPS.D("Tetrahedral", (ids[0], ids[1], None, None, None), 1)])
        for b in list(m.bonds)[:1]:
            if b not in m.bstereo:
                x, y = sorted(b)
                ed.append(["set_bond_stereo", OPS.D("PlanarBond", (None, None, x, y, None, None), 0)])
    if m.kind == SCRG:
        for c, kd in m.achg.items():
            ed.append(["delete_atom_stereo_change", c])
            for k, d in kd.items():
                ed.append(["delete_atom_stereo_change", c, "Change." + k])
                t = d[1]
                ed.append(["set_atom_stereo_change", {"kw": {k.lower(): OPS.D(d[0], (t[0], t[2], t[1]) + tuple(t[3:]), d[2])}}])
        for c, kd in m.bchg.items():
            ed.append(["delete_bond_stereo_change", sorted(c)])
            for k, d in kd.items():
                ed.append(["delete_bond_stereo_change", sorted(c), "Change." + k])
                t = d[1]
                ed.append(["set_bond_stereo_change", {"kw": {k.lower(): OPS.D(d[0], (t[1], t[0]) + tuple(t[2:]), d[2])}}])
        if ids and ids[0] not in m.achg and len(ids) >= 2:
            ed.append(["set_atom_stereo_change", {"kw": {"formed": OPS.D("Tetrahedral", (ids[0], ids[1], None, None, None), 1)}}])
    return ed


def items(tier, seed):
    n = len(sources(tier))
    return [{"lo": i, "hi": i + 1, "tier": tier} for i in range(n)]


def run_item(item):
    out = {"evals": 0, "distinct": 0, "outcomes": {}, "viol": [], "samples": []}
    oc = out["outcomes"]
    for m in sources(item["tier"])[item["lo"]:item["hi"]]:
        for dname in derivations(m.kind):
            # content of the derived graph decides which edits exist on that side
            try:
                d0 = derive(U.build(m), dname)
            except Exception as e:
                oc["derivation-raised:" + dname] = oc.get("derivation-raised:" + dname, 0) + 1
                continue
            md = U.from_real(d0)
            for side, content in (("edit-derived", md), ("edit-source", m)):
                for op in edits(content):
                    src = U.build(m)
                    der = derive(src, dname)
                    target, other = (der, src) if side == "edit-derived" else (src, der)
                    before = norm(snap(other))
                    try:
                        OPS.apply_real(target, op)
                    except Exception:
                        oc["edit-raised"] = oc.get("edit-raised", 0) + 1
                        continue
                    after = norm(snap(other))
                    out["evals"] += 1
                    out["distinct"] += 1
                    oc[side] = oc.get(side, 0) + 1
                    if before != after:
                        out["viol"].append({
                            "sig": f"C10/{E.SHORT[m.kind]}/{dname}/{op[0]}/{side}/{'+'.join(diff(before, after))}",
                            "input": U.key(m),
                            "what": f"{op} on the {'derived' if side == 'edit-derived' else 'source'} graph changed the "
                                    f"{'source' if side == 'edit-derived' else 'derived'} graph ({dname} of {U.describe(m)})",
                            "item": item, "detail": {k: {"before": before.get(k), "after": after.get(k)} for k in diff(before, after)}})
        # two graphs derived from the same source by the same operation are independent of each other as well (a derivation
        # that hands out a cached / shared object would pass the source-vs-derived test)
        for dname in derivations(m.kind):
            try:
                src = U.build(m)
                d1 = derive(src, dname)
                d2 = derive(U.build(m), dname) if dname == "json" else derive(src, dname)
            except Exception:
                continue
            md = U.from_real(d1)
            if d1 is d2:
                out["viol"].append({"sig": f"C10/{E.SHORT[m.kind]}/{dname}/siblings/same-object", "input": U.key(m),
                                    "what": f"{dname} applied twice returned the very same object ({U.describe(m)})", "item": item,
                                    "detail": None})
                continue
            for op in edits(md)[:: 3]:
                src = U.build(m)
                d1 = derive(src, dname)
                d2 = derive(U.build(m), dname) if dname == "json" else derive(src, dname)
                before = norm(snap(d2))
                try:
                    OPS.apply_real(d1, op)
                except Exception:
                    continue
                after = norm(snap(d2))
                out["evals"] += 1
                out["distinct"] += 1
                oc["siblings"] = oc.get("siblings", 0) + 1
                if before != after:
                    out["viol"].append({"sig": f"C10/{E.SHORT[m.kind]}/{dname}/{op[0]}/siblings/{'+'.join(diff(before, after))}",
                                        "input": U.key(m),
                                        "what": f"{op} on one {dname} of {U.describe(m)} changed a second {dname} of the same graph",
                                        "item": item, "detail": None})
        # attribute VALUES that are themselves mutable (a list of tags on an atom, an array-like on a bond): changing such a value in
        # place on one graph must not show through the other (JSON does not carry free attributes and is left out)
        ids = list(m.atoms)
        if ids:
            a0 = ids[0]
            b0 = tuple(sorted(next(iter(m.bonds)))) if m.bonds else None
            for dname in derivations(m.kind):
                if dname == "json":
                    continue
                for side in ("edit-derived", "edit-source"):
                    try:
                        src = U.build(m)
                        src.set_atom_attribute(a0, "tags", [1, 2])
                        if len(ids) > 1:
                            # a tuple (immutable itself) that holds a mutable member, as the only free attribute of its atom
                            src.set_atom_attribute(ids[-1], "scan", ("angstrom", [0.1, 0.2]))
                        if b0:
                            src.set_bond_attribute(*b0, "path", [0.5, {"k": 1}])
                        der = derive(src, dname)
                    except Exception:
                        continue
                    target, other = (der, src) if side == "edit-derived" else (src, der)

                    def vals(g):
                        r = []
                        if a0 in g.atoms:
                            r.append(repr(g.get_atom_attribute(a0, "tags")))
                        if len(ids) > 1 and ids[-1] in g.atoms:
                            r.append(repr(g.get_atom_attribute(ids[-1], "scan")))
                        if b0 and g.has_bond(*b0):
                            r.append(repr(g.get_bond_attribute(*b0, "path")))
                        return r
                    try:
                        before = vals(other)
                        if a0 in target.atoms and target.get_atom_attribute(a0, "tags") is not None:
                            target.get_atom_attribute(a0, "tags").append(7)
                        if len(ids) > 1 and ids[-1] in target.atoms and target.get_atom_attribute(ids[-1], "scan") is not None:
                            target.get_atom_attribute(ids[-1], "scan")[1].append(0.3)
                        if b0 and target.has_bond(*b0) and target.get_bond_attribute(*b0, "path") is not None:
                            target.get_bond_attribute(*b0, "path")[1]["k"] = 2
                        after = vals(other)
                    except Exception:
                        oc["edit-raised"] = oc.get("edit-raised", 0) + 1
                        continue
                    out["evals"] += 1
                    out["distinct"] += 1
                    oc["mutable-value-" + side] = oc.get("mutable-value-" + side, 0) + 1
                    if before != after:
                        out["viol"].append({"sig": f"C10/{E.SHORT[m.kind]}/{dname}/mutable-attribute-value/{side}", "input": U.key(m),
                                            "what": f"a list stored as attribute value was changed in place on the "
                                                    f"{'derived' if side == 'edit-derived' else 'source'} graph and the change shows on the "
                                                    f"other one: {before} -> {after} ({dname} of {U.describe(m)})", "item": item, "detail": None})
        if not out["samples"]:
            out["samples"].append({"source": U.describe(m), "derivations": derivations(m.kind), "n_edits": len(edits(m))})
    return out
