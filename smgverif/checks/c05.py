"""C05 - isomorphism enumeration is exact (DESIGN.md 5/C05)."""
from __future__ import annotations

from functools import lru_cache

from ..model import refgraph as RG
from ..model import refiso as RI
from ..universe import graphs as U
from . import eqcommon as E

PROP = "C05"
RULE = ("list(vf2pp_all_isomorphisms(g1, g2, atom_labels, stereo, stereo_change)) for all ordered pairs of bounded universes "
        "(all labelled MolGraphs n<=3, labelled n=4 x representatives [thorough: all], stereo stars / two-unit graphs with stereo in "
        "{False, True}, stereo reaction graphs with stereo_change=True incl. several changes of one kind meeting at one atom, second graph under other identifiers), label modes (incl. caller labels -1 / -2, whose hashes coincide), flags also given as numpy.bool_ / 1 "
        "{default, element dict, all-equal, degree, mismatching}, symmetric graphs up to 14 atoms against themselves and a "
        "relabelled copy; topological_symmetry_number of every fully specified stereo graph.  Oracle: the set of valid bijections "
        "found by brute-force backtracking with the same labels: every yielded mapping valid, none missing, none twice.  "
        "distinct = ordered pairs with equal atom and bond count x modes")
ASSUMPTIONS = ["full-graph mode only (subgraph=False)",
               "'structure' = caller/default atom labels + adjacency (+ descriptors / stereo changes when asked); bond roles are "
               "not part of what this function is given (they are C02's business via ==)"]
BUDGET = {"quick": 600, "thorough": 1800}
MG, SMG, CRG, SCRG = RG.MG, RG.SMG, RG.CRG, RG.SCRG
MODES = ("default", "elements", "all-equal", "degree", "mismatch", "colliding", "tuple-colliding")


@lru_cache(None)
def pools(tier):
    P = {}
    lab3 = [g for n in range(0, 4) for g in U.mg_labelled(n, ("C", "H"))]
    lab4 = U.mg_labelled(4, ("C", "H"))
    reps4 = [g for g in U.MG_reps(4, ("C", "H")) if len(g.atoms) == 4]
    P["MG-lab3"] = (lab3, lab3, MODES, [(False, False)])
    if tier == "quick":
        P["MG-lab4xreps"] = (lab4, reps4, ("default", "all-equal"), [(False, False)])
    else:
        P["MG-lab4"] = (lab4, lab4, ("default",), [(False, False)])
        P["MG-lab4xreps"] = (lab4, reps4, MODES, [(False, False)])
    st = list(U.stars(5 if tier == "quick" else 6))
    P["stars"] = (st, st, ("default", "all-equal"), [(False, False), (True, False)])
    ex = list(U.stars_extra()) + [g for g in st if len(g.atoms) == 4]
    P["stars-extra"] = (ex, ex + [g for g in st if len(g.atoms) in (5, 6, 7)][::5], ("default", "all-equal"), [(False, False), (True, False)])
    sr = [g for _, g in U.symmetric_reactions()][::4]
    P["symmetric-reactions"] = (sr, sr, ("default",), [(False, False)])
    tu = list(U.two_unit())
    P["two-unit"] = (tu, tu, ("default", "all-equal"), [(False, False), (True, False)])
    sc = [g for g in U.scrg_universe("quick" if tier == "quick" else "thorough")]
    P["SCRG"] = (sc, sc, ("default",), [(True, True), (True, False)])
    sp = U.spiro_changes()
    P["spiro-stereo-changes"] = (sp, sp + [g.copy().relabel({a: 20 - a for a in g.atoms}) for g in sp], ("default",), [(True, True), (True, False)])
    sy = [g for _, g in U.symmetric()]
    P["symmetric"] = (sy, sy, ("default", "all-equal"), [(False, False), (True, False)])
    return P


def items(tier, seed):
    out = []
    for name, (rows, cols, modes, flags) in pools(tier).items():
        per = max(1, 3000 // max(1, len(cols)))
        for lo in range(0, len(rows), per):
            out.append({"pool": name, "lo": lo, "hi": min(len(rows), lo + per), "tier": tier})
    out.append({"symnum": True, "tier": tier})
    return out


def labels_for(mode, a, b):
    if mode == "default":
        return None
    if mode == "elements":
        return ({x: d["atom_type"] for x, d in a.atoms.items()}, {x: d["atom_type"] for x, d in b.atoms.items()})
    if mode == "all-equal":
        return ({x: 0 for x in a.atoms}, {x: 0 for x in b.atoms})
    if mode == "degree":
        return ({x: len(a.nbrs(x)) for x in a.atoms}, {x: len(b.nbrs(x)) for x in b.atoms})
    if mode in ("colliding", "tuple-colliding"):
        # caller labels whose Python hashes coincide although they differ: -1 / -2 (formal charges), also inside tuples
        def lab(g):
            out = {}
            for i, x in enumerate(sorted(g.atoms, key=lambda y: (len(g.nbrs(y)), g.atoms[y]["atom_type"], repr(y)))):
                v = -1 - (i % 2)
                out[x] = v if mode == "colliding" else (g.atoms[x]["atom_type"], v)
            return out
        return (lab(a), lab(b))
    if mode == "mismatch":
        return ({x: 0 for x in a.atoms}, {x: 1 for x in b.atoms})
    raise KeyError(mode)


def compare(ra, rb, a, b, mode, stereo, change, flagtype="bool"):
    """returns (verdict, detail): verdict in ok / invalid / missing / duplicate / exception"""
    from stereomolgraph.algorithms.isomorphism import vf2pp_all_isomorphisms

    labels = labels_for(mode, a, b)
    if flagtype == "numpy":
        # the flags as a caller may well have them: the result of a numpy comparison / any(), or 1 / 0
        import numpy as np

        stereo_arg, change_arg = np.bool_(stereo), (1 if change else 0)
    else:
        stereo_arg, change_arg = stereo, change
    try:
        got = list(vf2pp_all_isomorphisms(ra, rb, atom_labels=labels, stereo=stereo_arg, stereo_change=change_arg))
    except Exception as e:
        return "exception:" + type(e).__name__, str(e)[:200]
    exp = {frozenset(f.items()) for f in RI.isomorphisms(a, b, roles=False, stereo=stereo, changes=change, labels=labels)}
    gs = [frozenset(f.items()) for f in got]
    if len(set(gs)) != len(gs):
        return "duplicate", {"yielded": len(gs), "distinct": len(set(gs))}
    gset = set(gs)
    if gset - exp:
        return "invalid", {"invalid": sorted(map(sorted, gset - exp))[:3], "expected": len(exp)}
    if exp - gset:
        return "missing", {"missing": sorted(map(sorted, exp - gset))[:3], "yielded": len(gset)}
    return "ok", len(exp)


def run_item(item):
    tier = item["tier"]
    out = {"evals": 0, "distinct": 0, "outcomes": {}, "viol": [], "samples": []}
    oc = out["outcomes"]
    if item.get("symnum"):
        return _symnum(item, out)
    rows, cols, modes, flags = pools(tier)[item["pool"]]
    shift = 10 if item["pool"] in ("SCRG", "stars", "stars-extra", "two-unit", "symmetric", "symmetric-reactions") else 0
    cols2 = [(g.copy().relabel({x: x + shift for x in g.atoms}) if shift else g) for g in cols]
    rcols = [U.build(g) for g in cols2]
    for i in range(item["lo"], item["hi"]):
        a = rows[i]
        ra = U.build(a)
        for j, b in enumerate(cols2):
            if a.kind != b.kind:
                continue
            same_size = len(a.atoms) == len(b.atoms) and len(a.bonds) == len(b.bonds)
            for (stereo, change) in flags:
                if stereo and a.kind not in (SMG, SCRG):
                    continue
                if change and a.kind != SCRG:
                    continue
                for mode in (modes if same_size else modes[:1]):
                    # (every third pair with truthy / falsy flags that are not the bool singletons)
                    ft = "numpy" if (stereo or change) and mode == modes[0] and (i + j) % 3 == 0 else "bool"
                    v, det = compare(ra, rcols[j], a, b, mode, stereo, change, ft)
                    if ft == "numpy" and v != "ok":
                        v = "flags-as-numpy-bool:" + v
                    out["evals"] += 1
                    if same_size:
                        out["distinct"] += 1
                    if v == "ok":
                        k = "ok-nonempty" if det else "ok-empty"
                        oc[k] = oc.get(k, 0) + 1
                        if det and det > 1:
                            oc["ok-multiple"] = oc.get("ok-multiple", 0) + 1
                        continue
                    out["viol"].append({
                        "sig": f"C05/{E.SHORT[a.kind]}/{item['pool']}/{mode}/stereo={stereo}/change={change}/{v}",
                        "input": f"{U.key(a)}|{U.key(b)}",
                        "what": f"vf2pp_all_isomorphisms({U.describe(a)}, {U.describe(b)}, labels={mode}, stereo={stereo}, "
                                f"stereo_change={change}): {v} {det}",
                        "item": item, "detail": det})
    if item["lo"] == 0:
        out["samples"].append({"pool": item["pool"], "rows": len(rows), "cols": len(cols),
                               "example": [U.describe(rows[-1]), U.describe(cols2[-1])]})
    return out


def _symnum(item, out):
    from stereomolgraph.experimental import topological_symmetry_number

    oc = out["outcomes"]
    specs = [g for g in list(U.stars(6)) + list(U.two_unit()) + [g for _, g in U.symmetric() if g.kind == SMG]
             if E.fully_specified(g)]
    specs += [U.to_kind(g, SMG) for g in U.MG_reps(4, ("C", "H", "O")) if 0 < len(g.atoms)][::4]
    for m in specs:
        exp = sum(1 for _ in RI.isomorphisms(m, m, roles=False, stereo=True, changes=False))
        ids = list(m.atoms)
        builds = [("as-given", lambda: U.build(m)),
                  ("reversed-insertion", lambda: U.build(m, atom_order=list(reversed(ids)))),
                  ("rotated-insertion", lambda: U.build(m, atom_order=ids[len(ids) // 2:] + ids[:len(ids) // 2])),
                  ("relabelled", lambda: U.build(m.copy().relabel(dict(zip(ids, [a * 7 % 23 + 40 for a in reversed(range(len(ids)))]))))),
                  ("relabel_atoms", lambda: U.build(m).relabel_atoms(dict(zip(ids, reversed(ids))), copy=True)),
                  ("subgraph-reversed", lambda: U.build(m).subgraph(list(reversed(ids))))]
        for how, mkg in builds:
            try:
                got = topological_symmetry_number(mkg())
            except Exception as e:
                got = "EXC:" + type(e).__name__
            out["evals"] += 1
            out["distinct"] += 1
            oc["symnum-" + ("ok" if got == exp else "bad")] = oc.get("symnum-" + ("ok" if got == exp else "bad"), 0) + 1
            if got != exp:
                cl = "raised" if isinstance(got, str) else "wrong"
                out["viol"].append({"sig": f"C05/SMG/topological_symmetry_number/{how}/{cl}",
                                    "input": U.key(m),
                                    "what": f"topological_symmetry_number({U.describe(m)}, built {how}) = {got}, number of stereo-preserving "
                                            f"automorphisms = {exp}", "item": item, "detail": None})
    return out
