"""C15 - JSON serialisation round-trips every graph losslessly (DESIGN.md 5/C15)."""
from __future__ import annotations

from functools import lru_cache

from ..model import refgraph as RG
from ..snapshot import diff, norm, snap
from ..universe import graphs as U
from . import eqcommon as E

PROP = "C15"
RULE = ("every spec of all four universes (all MolGraph classes n<=4 over {C,H,O} also expressed in the three other classes, "
        "reaction graphs n<=3 with every role assignment incl. fleeting, stereo stars of every class x every stereoisomer x "
        "unspecified parity x lone-pair placeholder, two-unit graphs, stereo reaction graphs with all 7 non-empty kind combinations "
        "for atom and bond stereo changes, static bond descriptors on bonds with a reaction role, symmetric graphs, 7-coordinate and "
        "133-atom graphs, empty graph) x three identifier pools (0..n-1, negative/mixed, >=2^31) and once with extra attributes (bond_order, order, charge, "
        "free-form) on every atom and bond. "
        "Oracle: json_deserialize(json_serialize(g)) has the same class and an identical normalised snapshot (atoms, elements, "
        "bonds, roles, exact descriptor tuples and parities, changes); == and hash agree with the original.  distinct = (spec, pool)")
ASSUMPTIONS = ["atom/bond attributes other than the element and the reaction role are not part of the JSON format and are not compared"]
BUDGET = {"quick": 600, "thorough": 900}
MG, SMG, CRG, SCRG = RG.MG, RG.SMG, RG.CRG, RG.SCRG
BIGPOOL = [2147483648 + 7 * i for i in range(20)]
NEGPOOL = [-5, 3, -1, 0, 12, -40, 7, 2, -2, 9, 100, -100, 55, 1, -3, 4, 6, 8, 10, 11]


@lru_cache(None)
def specs(tier):
    S = []
    mg = list(U.MG_reps(4, ("C", "H", "O")))
    S += mg
    S += [U.to_kind(g, k) for g in mg if len(g.atoms) <= 3 for k in (SMG, CRG, SCRG)]
    S += list(U.CRG_reps(3))
    S += [U.to_kind(g, SCRG) for g in U.CRG_reps(3)][::2]
    S += list(U.stars(6 if tier == "thorough" else 5))
    S += [U.to_kind(g, SCRG) for g in U.stars(4)]
    S += list(U.two_unit())
    S += list(U.scrg_universe("thorough" if tier == "thorough" else "quick"))
    S += [g for _, g in U.symmetric()]
    S += list(U.hubs("quick"))[:2] + list(U.large("quick"))[:2]
    # an ordinary (static) bond descriptor on a bond that also carries a reaction role, next to a bond stereo change elsewhere
    at = [(40, "C"), (41, "C"), (42, "F"), (43, "H"), (44, "Cl"), (45, "H"), (46, "C"), (47, "C"), (48, "F"), (49, "H"), (50, "Br"), (51, "H")]
    for role in ("FORMED", "BROKEN", "FLEETING", None):
        bd = [(40, 41, role), (40, 42), (40, 43), (41, 44), (41, 45), (46, 47), (46, 48), (46, 49), (47, 50), (47, 51), (41, 46, "FORMED")]
        for cls, par in (("PlanarBond", 0), ("AtropBond", 1), ("AtropBond", -1)):
            S.append(U.mk(SCRG, at, bd, bstereo=[(cls, (42, 43, 40, 41, 44, 45), par)],
                          bchg={(46, 47): {"BROKEN": ("PlanarBond", (48, 49, 46, 47, 50, 51), 0), "FORMED": ("PlanarBond", (48, 49, 46, 47, 51, 50), 0)}}))
    # one centre that carries BOTH a static descriptor and stereo changes (what reactant() / product() / the transition state
    # overlay): an atom (P: static tetrahedral + fleeting trigonal bipyramid) and a bond (static planar + fleeting axis)
    at2 = [(60, "P"), (61, "F"), (62, "Cl"), (63, "Br"), (64, "H"), (65, "O"), (66, "C"), (67, "C"), (68, "F"), (69, "H"), (70, "Cl"), (71, "H")]
    bd2 = [(60, 61), (60, 62), (60, 63), (60, 64), (60, 65, "FLEETING"), (66, 67), (66, 68), (66, 69), (67, 70), (67, 71)]
    S.append(U.mk(SCRG, at2, bd2, astereo=[("Tetrahedral", (60, 61, 62, 63, 64), 1)], bstereo=[("PlanarBond", (68, 69, 66, 67, 70, 71), 0)],
                  achg={60: {"FLEETING": ("TrigonalBipyramidal", (60, 61, 65, 62, 63, 64), 1)}},
                  bchg={(66, 67): {"FLEETING": ("AtropBond", (68, 69, 66, 67, 70, 71), 1)}}))
    S.append(U.mk(SCRG, at2, bd2, astereo=[("Tetrahedral", (60, 61, 62, 63, 64), -1)],
                  achg={60: {"BROKEN": ("Tetrahedral", (60, 61, 62, 63, 64), -1), "FORMED": ("SquarePlanar", (60, 61, 62, 63, 64), 0)}}))
    return S


def items(tier, seed):
    n = len(specs(tier))
    return [{"lo": lo, "hi": min(n, lo + 40), "tier": tier} for lo in range(0, n, 40)] + [{"colliding": True, "tier": tier}]


def colliding_specs():
    """graphs that differ only in identifiers whose Python hashes coincide (hash(-1) == hash(-2), hash(n) == hash(n + 2**61 - 1)),
    inside one graph and in consecutive graphs of one process: descriptors must not be confused with each other"""
    out = []
    P = 2 ** 61 - 1
    for x, y in ((-1, -2), (0, P), (5, 5 + P), (-2, -1)):
        # one reaction centre whose broken / formed descriptors differ only in the ligand x vs y
        atoms = [(10, "C"), (x, "F"), (y, "F"), (11, "Cl"), (12, "Br"), (13, "H")]
        bonds = [(10, x, "BROKEN"), (10, y, "FORMED"), (10, 11), (10, 12), (10, 13)]
        out.append(U.mk(SCRG, atoms, bonds, achg={10: {"BROKEN": ("Tetrahedral", (10, x, 11, 12, 13), 1),
                                                       "FORMED": ("Tetrahedral", (10, y, 11, 12, 13), 1)}}))
        # two centres whose descriptors differ only in x vs y, and the same molecule written once with x and once with y
        out.append(U.mk(SMG, [(x, "C"), (y, "C"), (20, "F"), (21, "Cl"), (22, "Br"), (23, "F"), (24, "Cl"), (25, "Br")],
                        [(x, y), (x, 20), (x, 21), (x, 22), (y, 23), (y, 24), (y, 25)],
                        astereo=[("Tetrahedral", (x, y, 20, 21, 22), 1), ("Tetrahedral", (y, x, 23, 24, 25), -1)]))
        for z in (x, y):
            out.append(U.mk(SMG, [(30, "C"), (z, "F"), (31, "Cl"), (32, "Br"), (33, "H")], [(30, z), (30, 31), (30, 32), (30, 33)],
                            astereo=[("Tetrahedral", (30, z, 31, 32, 33), 1)]))
            out.append(U.mk(SMG, [(40, "C"), (41, "C"), (z, "F"), (43, "H"), (44, "Cl"), (45, "H")],
                            [(40, 41), (40, z), (40, 43), (41, 44), (41, 45)], bstereo=[("PlanarBond", (z, 43, 40, 41, 44, 45), 0)]))
    return out


def run_item(item):
    from stereomolgraph.experimental import JSONHandler

    out = {"evals": 0, "distinct": 0, "outcomes": {}, "viol": [], "samples": []}
    oc = out["outcomes"]
    for m0 in (colliding_specs() if item.get("colliding") else specs(item["tier"])[item["lo"]:item["hi"]]):
        ids = list(m0.atoms)
        for pname, pool in ((("colliding-ids", None),) if item.get("colliding") else
                            (("0..n", None), ("negative", NEGPOOL), ("huge", BIGPOOL), ("extra-attributes", None))):
            if pool is not None and (not ids or len(ids) > len(pool)):
                continue
            m = m0 if pool is None else m0.copy().relabel(dict(zip(ids, pool)))
            g = U.build(m)
            if pname == "extra-attributes":
                # attributes that are not part of the format (a bond order, a charge, free-form values) on every atom and bond:
                # whatever happens to them, elements, roles, descriptors and changes must survive
                if not ids:
                    continue
                for a in m.atoms:
                    g.set_atom_attribute(a, "charge", -1)
                    g.set_atom_attribute(a, "x", "y")
                for b in m.bonds:
                    g.set_bond_attribute(*b, "bond_order", 2)
                    g.set_bond_attribute(*b, "order", 1.5)
                    g.set_bond_attribute(*b, "w", "z")
            if pname == "negative" and ids:
                # the source has an editing history: every atom is added a second time (same element), one bond is removed and
                # added again - the content is the same and must round-trip like a freshly built graph
                from ..model.elements import SYM

                for a in list(m.atoms):
                    g.add_atom(a, SYM[m.atoms[a]["atom_type"]], **{k: v for k, v in m.atoms[a].items() if k != "atom_type"})
                if m.bonds and not (m.bstereo or m.bchg):
                    b0 = next(iter(m.bonds))
                    from ..universe.graphs import rattrs

                    g.remove_bond(*b0)
                    g.add_bond(*b0, **rattrs(m.bonds[b0]))
            feats = set()
            if any(d.get("reaction") == "Change.FLEETING" for d in m.bonds.values()):
                feats.add("fleeting-bond")
            if any(d.get("reaction") in ("Change.FORMED", "Change.BROKEN") for d in m.bonds.values()):
                feats.add("formed/broken-bond")
            for d in list(m.astereo.values()) + list(m.bstereo.values()):
                feats.add(d[0])
                if None in d[1]:
                    feats.add("placeholder")
                if d[2] is None:
                    feats.add("parity-None")
            for st in (m.achg, m.bchg):
                for kd in st.values():
                    feats.add("chg:" + "+".join(sorted(kd)))
                    for d in kd.values():
                        if None in d[1]:
                            feats.add("placeholder")
            if not ids:
                feats.add("empty")

            def V(clause, what, detail=None):
                out["viol"].append({"sig": f"C15/{E.SHORT[m.kind]}/{pname}/{clause}",
                                    "input": U.key(m), "what": what + f" for {U.describe(m)}", "item": item, "detail": detail})

            out["evals"] += 1
            out["distinct"] += 1
            for f in feats or {"plain"}:
                oc[f] = oc.get(f, 0) + 1
            before = norm(snap(g))
            try:
                txt = JSONHandler.json_serialize(g)
            except Exception as e:
                V("serialize-raised:" + type(e).__name__ + ":" + "+".join(sorted(feats)), f"json_serialize raised {e!r}")
                continue
            if norm(snap(g)) != before:
                V("serialize-modified", "json_serialize modified the graph")
            try:
                h = JSONHandler.json_deserialize(txt)
            except Exception as e:
                V("deserialize-raised:" + type(e).__name__ + ":" + "+".join(sorted(feats)), f"json_deserialize raised {e!r}",
                  {"json": txt[:400]})
                continue
            if type(h) is not type(g):
                V("class", f"round trip produced a {type(h).__name__}")
                continue
            strip = lambda n: {**n, "atoms": [(a, [kv for kv in at if kv[0] == "atom_type"]) for a, at in n["atoms"]],  # noqa: E731
                               "bonds": [(b, [kv for kv in at if kv[0] == "reaction"]) for b, at in n["bonds"]]}
            a, b = strip(before), strip(norm(snap(h), drop_empty_changes=True))
            a = strip(norm(snap(g), drop_empty_changes=True))
            d = diff(a, b)
            if d:
                V("lost:" + "+".join(d) + ":" + "+".join(sorted(feats)), f"round trip changed {d}",
                  {k: {"before": a.get(k), "after": b.get(k)} for k in d})
                continue
            try:
                eq = (g == h) and (h == g)
            except Exception as e:
                eq = "EXC:" + type(e).__name__
            if eq is not True:
                V(f"eq-{eq}", f"original == round-tripped is {eq}")
            if E.fully_specified(m):
                if hash(g) != hash(h):
                    V("hash", "hash changed by the round trip")
        if not out["samples"]:
            out["samples"].append({"spec": U.describe(m0), "json": JSONHandler.json_serialize(U.build(m0))[:300]})
    return out
