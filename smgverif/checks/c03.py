"""C03 - hash agrees with equality and is canonical across runs (DESIGN.md 5/C03)."""
from __future__ import annotations

import os
import subprocess
import sys

from ..model import refgraph as RG
from ..model import refiso as RI
from ..universe import graphs as U
from . import eqcommon as E
from . import histories as H

PROP = "C03"
RULE = ("(i) every fully specified spec of the C01 universes x every same-graph-by-construction variant (renaming, insertion "
        "order, every symmetry-equivalent descriptor spelling incl. mirrored ordering with opposite parity): hash(G)==hash(G'), "
        "G' in {G}, {G:1}[G']; (ii) complete labelled universes (all labelled MolGraphs n<=4 over {C,H}, all labelled reaction "
        "graphs on 3 C atoms, stereo universes) partitioned into isomorphism classes by the brute-force oracle: one hash per "
        "class; (iii) a fixed list of non-empty graphs of all classes hashed in fresh interpreters under several PYTHONHASHSEED "
        "values: identical output; (iv) every sequence of <=2 (thorough <=3, stereo reaction class <=2) public mutator calls after 2-4 roots per class on a "
        "stereo-valid 14-atom skeleton, hash and == evaluated after every call: hash(G) == hash(freshly built twin).  distinct = (spec, variant) pairs + labelled graphs + (graph, seed) pairs")
ASSUMPTIONS = ["the seed space (2^32) is cut to a list: quick {0,1,2,3,42,4294967295}, thorough 32 seeds + 'random' twice",
               "fully specified parities only", "pairs the library calls equal but the oracle refutes are C02's business"]
BUDGET = {"quick": 600, "thorough": 1500}
MG, SMG, CRG, SCRG = RG.MG, RG.SMG, RG.CRG, RG.SCRG


def labelled_pools(tier):
    P = {}
    P["MG-lab<=4"] = [g for n in range(1, 5) for g in U.mg_labelled(n, ("C", "H"))]
    P["CRG-lab3C"] = U.crg_labelled(3, ("C",)) + U.crg_labelled(2, ("C", "H"))
    P["SMG-lab"] = [U.to_kind(g, SMG) for n in range(1, 4) for g in U.mg_labelled(n, ("C", "H"))]
    P["stars"] = [g for g in U.stars(5 if tier == "quick" else 6) if E.fully_specified(g)]
    P["two-unit"] = [g for g in U.two_unit() if E.fully_specified(g)]
    P["SCRG"] = [g for g in U.scrg_universe("quick" if tier == "quick" else "thorough") if E.fully_specified(g) and g.atoms]
    if tier == "thorough":
        P["CRG-lab3CH"] = U.crg_labelled(3, ("C", "H"))
    return P


def process_list():
    """fixed list of non-empty graphs for the process-independence part"""
    L = []
    L += [g for g in U.MG_reps(4, ("C", "H", "O")) if g.atoms][::7]
    L += [g for g in U.CRG_reps(3) if g.atoms][::6]
    L += list(U.stars(6))[::7]
    L += list(U.two_unit())[::3]
    L += [g for g in U.scrg_universe("quick") if g.atoms][::6]
    L += [g for _, g in U.symmetric()]
    return L


def dump_hashes():
    for i, g in enumerate(process_list()):
        print(i, g.kind, hash(U.build(g)))


def items(tier, seed):
    E.universes(tier)
    out = [dict(c, tier=tier, seed=seed, part="variants") for c in E.chunks(tier, 6)]
    for name, specs in labelled_pools(tier).items():
        out.append({"part": "classes", "pool": name, "tier": tier})
    seeds = [0, 1, 2, 3, 42, 4294967295] if tier == "quick" else list(range(0, 30)) + [12345, 4294967295, "random", "random"]
    for s in seeds:
        out.append({"part": "process", "hashseed": s, "tier": tier})
    return out + H.items(tier)


def run_item(item):
    out = {"evals": 0, "distinct": 0, "outcomes": {}, "viol": [], "samples": []}
    if item["part"] == "history":
        return H.run(item, out, PROP)
    if item["part"] == "variants":
        return _variants(item, out)
    if item["part"] == "classes":
        return _classes(item, out)
    return _process(item, out)


def _h(g):
    try:
        return hash(g)
    except Exception as e:
        return "EXC:" + type(e).__name__


def _variants(item, out):
    tier, seed = item["tier"], item["seed"]
    oc = out["outcomes"]
    specs = E.universes(tier)[item["u"]][item["lo"]:item["hi"]]
    for m in specs:
        if not E.fully_specified(m):
            continue
        g = U.build(m)
        h0 = _h(g)
        for vt, m2, kw in E.variants(m, tier, seed):
            g2 = U.build(m2, **kw)
            h2 = _h(g2)
            out["evals"] += 1
            out["distinct"] += 1
            oc[vt] = oc.get(vt, 0) + 1
            if h0 != h2 or isinstance(h0, str):
                out["viol"].append({"sig": f"C03/{E.SHORT[m.kind]}/{vt}/hash-differs",
                                    "input": f"{item['u']}:{U.key(m)}",
                                    "what": f"hash {h0} of {U.describe(m)} differs from hash {h2} of its {vt} variant "
                                            f"{U.describe(m2)} {kw}", "item": item, "detail": None})
                continue
            if vt in ("rename-perm", "rewrite-one", "rename+rewrite", "atom-order") and m.atoms:
                try:
                    ok = (g2 in {g}) and ({g: 1}.get(g2) == 1)
                except Exception as e:
                    ok = "EXC:" + type(e).__name__
                out["evals"] += 1
                if ok is not True:
                    out["viol"].append({"sig": f"C03/{E.SHORT[m.kind]}/{vt}/membership",
                                        "input": f"{item['u']}:{U.key(m)}",
                                        "what": f"set/dict membership of the {vt} variant of {U.describe(m)} is {ok}",
                                        "item": item, "detail": None})
        for vt, fn, m2 in E.edited_after_use(m):
            if not E.fully_specified(m2):
                continue
            try:
                g2 = fn(U.build(m))
                hf = _h(U.build(m2))
            except Exception:
                oc["derivation-raised"] = oc.get("derivation-raised", 0) + 1
                continue
            if not E.same_content(g2, m2):
                oc["derived-content-differs"] = oc.get("derived-content-differs", 0) + 1
                continue
            out["evals"] += 1
            out["distinct"] += 1
            oc[vt] = oc.get(vt, 0) + 1
            if _h(g2) != hf:
                out["viol"].append({"sig": f"C03/{E.SHORT[m.kind]}/{vt}/hash-differs", "input": f"{item['u']}:{U.key(m)}",
                                    "what": f"{U.describe(m)} hashed, then edited ({vt}): hash {_h(g2)} differs from hash {hf} of a "
                                            f"freshly built graph with the same content {U.describe(m2)}", "item": item, "detail": None})
        for vt, fn in E.derived(m):
            try:
                g2 = fn(U.build(m))
            except Exception:
                oc["derivation-raised"] = oc.get("derivation-raised", 0) + 1
                continue
            if not E.same_content(g2, m):
                oc["derived-content-differs"] = oc.get("derived-content-differs", 0) + 1
                continue
            h2 = _h(g2)
            out["evals"] += 1
            out["distinct"] += 1
            oc[vt] = oc.get(vt, 0) + 1
            if h0 != h2 or isinstance(h0, str):
                out["viol"].append({"sig": f"C03/{E.SHORT[m.kind]}/{vt}/hash-differs", "input": f"{item['u']}:{U.key(m)}",
                                    "what": f"hash {h0} of a freshly built {U.describe(m)} differs from hash {h2} of its {vt} "
                                            f"counterpart (same labelled content)", "item": item, "detail": None})
    return out


def _classes(item, out):
    specs = labelled_pools(item["tier"])[item["pool"]]
    cl = RI.classes(specs)
    hs = [_h(U.build(g)) for g in specs]
    out["evals"] = len(specs)
    out["distinct"] = len(specs)
    out["outcomes"] = {f"classes-{item['pool']}": len(cl), f"distinct-hashes-{item['pool']}": len(set(hs))}
    for c in cl:
        vals = {hs[i] for i in c}
        if len(vals) > 1 or any(isinstance(v, str) for v in vals):
            i0 = c[0]
            i1 = next(i for i in c if hs[i] != hs[i0]) if len(vals) > 1 else i0
            out["viol"].append({"sig": f"C03/{E.SHORT[specs[i0].kind]}/class-partition/hash-differs",
                                "input": f"{U.key(specs[i0])}|{U.key(specs[i1])}",
                                "what": f"isomorphic graphs {U.describe(specs[i0])} and {U.describe(specs[i1])} hash to "
                                        f"{hs[i0]} and {hs[i1]}", "item": item, "detail": None})
    out["samples"].append({"pool": item["pool"], "graphs": len(specs), "iso_classes": len(cl)})
    return out


_REF = {}


def _process(item, out):
    """hash the fixed list in a fresh interpreter with the given PYTHONHASHSEED and compare with this process"""
    env = dict(os.environ)
    env["PYTHONHASHSEED"] = str(item["hashseed"])
    r = subprocess.run([sys.executable, "-W", "ignore", "-c", "from smgverif.checks import c03; c03.dump_hashes()"],
                       env=env, capture_output=True, text=True, timeout=300)
    if r.returncode != 0:
        raise RuntimeError("hash dump subprocess failed: " + r.stderr[-500:])
    lines = r.stdout.strip().splitlines()
    here = []
    for i, g in enumerate(process_list()):
        here.append(f"{i} {g.kind} {hash(U.build(g))}")
    out["evals"] = len(lines)
    out["distinct"] = len(lines)
    out["outcomes"] = {"process-runs": 1}
    if len(lines) != len(here):
        raise RuntimeError("hash dump has wrong length")
    for a, b, g in zip(here, lines, process_list()):
        if a != b:
            out["viol"].append({"sig": f"C03/{E.SHORT[g.kind]}/process/hash-depends-on-process",
                                "input": U.key(g),
                                "what": f"hash of {U.describe(g)}: '{a}' in this process (PYTHONHASHSEED=0) but '{b}' with "
                                        f"PYTHONHASHSEED={item['hashseed']}", "item": item, "detail": None})
    return out
