"""C04 - Stereodescriptor identity is spatial identity.  Complete enumeration (DESIGN.md 5/C04)."""
from __future__ import annotations

import itertools
import random

from ..model import refstereo as R

PROP = "C04"
RULE = ("for each of the six descriptor classes: base tuple of distinct ids x ALL permutations of all positions "
        "(centre included) x all parity pairs from the class's parity domain x placeholder patterns (one, two, three lone pairs) x "
        "four identifier tuples (10..; seed-derived scattered; 0..n-1 so that the falsy id 0 occurs; ids whose Python hashes collide: "
        "-1/-2, k/k+2^61-1); library ==/hash/"
        "invert compared with the coordinate-derived symmetry oracle; descriptors with numpy-typed identifiers / parity behave like the "
        "plain ones. A case is non-trivial when the two orderings "
        "differ; distinct = distinct (class, ordering pair, parity pair) cases")
ASSUMPTIONS = [
    "idealised coordination figures of DESIGN.md 4.1 (AtropBond idealised at 90 degree twist)",
    "atoms inside one descriptor are pairwise distinct (placeholders may repeat)",
    "only same-class comparisons are asserted",
]
BUDGET = {"quick": 600, "thorough": 900}
CHUNK = 1


def _cls(name):
    import stereomolgraph.stereodescriptors as sd

    return getattr(sd, name)


def _bases(cls, seed, tier):
    n = R.NPOS[cls]
    out = [tuple(range(10, 10 + n))]
    rnd = random.Random(1000 + seed)
    ids = rnd.sample(range(-50, 200), n)
    out.append(tuple(ids))
    out.append(tuple(range(n)))                # identifier 0 (falsy) inside the descriptor, ids = positions
    # identifiers whose Python hashes coincide: hash(-1) == hash(-2), hash(k) == hash(k + 2**61 - 1)
    P = 2 ** 61 - 1
    out.append(tuple([-1, -2, 3, 3 + P, 0, P, 7][:n]))
    if tier == "thorough":
        out.append(tuple(reversed(range(n))))  # ids that are a permutation of the positions themselves
    return out


def _patterns(cls):
    """placeholder patterns: tuples of positions replaced by None"""
    n = R.NPOS[cls]
    pats = [()]
    if cls in R.ATOM_CLASSES:
        pats += [(k,) for k in range(1, n)]
        # two and three lone pairs on one centre (water-like, ClF3-like, XeF4-like): identical placeholders
        pats += [c for c in itertools.combinations(range(1, n), 2)]
        if n >= 5:
            pats += [c for c in itertools.combinations(range(1, n), 3)][:: 2]
    else:
        pats += [(k,) for k in (0, 1, 4, 5)]
        pats += [c for c in itertools.combinations((0, 1, 4, 5), 2)]
        pats += [c for c in itertools.combinations((0, 1, 4, 5), 3)]
    return pats


def items(tier, seed):
    out = []
    for cls in R.CLASSES:
        n = R.NPOS[cls]
        nperm = 1
        for i in range(2, n + 1):
            nperm *= i
        for bi, base in enumerate(_bases(cls, seed, tier)):
            for pat in _patterns(cls):
                if bi > 0 and len(pat) > 0 and tier == "quick" and cls == "Octahedral":
                    continue
                if bi == 3 and len(pat) > 1 and tier == "quick":      # (colliding ids: no / one placeholder in the quick tier)
                    continue
                step = 720
                for lo in range(0, nperm, step):
                    out.append({"cls": cls, "base": list(base), "pat": list(pat), "lo": lo, "hi": min(nperm, lo + step)})
        out.append({"cls": cls, "base": list(_bases(cls, seed, tier)[0]), "partition": True,
                    "centre_fixed": tier == "quick"})
    # classes of equal length used one after the other on the SAME atom tuples inside one process (shared caches,
    # class-level state): every ordered pair of such classes
    for c1 in R.CLASSES:
        for c2 in R.CLASSES:
            if c1 != c2 and R.NPOS[c1] == R.NPOS[c2]:
                out.append({"cls": c2, "after": c1, "base": list(_bases(c2, seed, tier)[0]), "pat": [], "lo": 0,
                            "hi": 720, "sequence": True})
    out.sort(key=lambda it: (bool(it.get("sequence")), R.NPOS[it["cls"]], len(it.get("pat", ())), it.get("lo", 0)))
    return out


def _mk(cls, t, p):
    return _cls(cls)(tuple(t), p)


def _eq(a, b):
    try:
        r = a == b
        if r is NotImplemented:
            return False, None
        return bool(r), None
    except Exception as e:  # an exception is neither True nor False
        return None, f"{type(e).__name__}: {e}"


def run_item(item):
    if item.get("partition"):
        return _partition(item)
    if item.get("sequence"):
        # first exercise the other class over the same tuples (result checked too), then this class
        first = dict(item, cls=item["after"], sequence=False)
        first.pop("after")
        r1 = run_item(first)
        second = dict(item, sequence=False)
        second.pop("after")
        r2 = run_item(second)
        for v in r1["viol"] + r2["viol"]:
            v["sig"] = v["sig"].replace("C04/", "C04/seq:", 1)
            v["item"] = item
        r2["viol"] = r1["viol"] + r2["viol"]
        r2["evals"] += r1["evals"]
        r2["distinct"] += r1["distinct"]
        r2["samples"] = []
        return r2
    cls = item["cls"]
    base = list(item["base"])
    pat = tuple(item["pat"])
    for k in pat:
        base[k] = None
    base = tuple(base)
    n = len(base)
    pars = R.PARITIES[cls]
    viol = []
    out = {"evals": 0, "distinct": 0, "outcomes": {}, "viol": viol, "samples": []}
    oc = out["outcomes"]

    def bump(k):
        oc[k] = oc.get(k, 0) + 1

    def V(clause, d1, d2, what, detail=None):
        prel = "n/a"
        if d1[2] is not None and d2 is not None and d2[2] is not None:
            prel = "same" if d1[2] == d2[2] else "opp"
        elif d1[2] is None or (d2 is not None and d2[2] is None):
            prel = "none"
        sig = f"C04/{cls}/{clause}/par-{prel}/ph{len(pat)}"
        viol.append({"sig": sig, "input": f"{d1}|{d2}", "what": what, "item": item,
                     "detail": detail or {"d1": d1, "d2": d2}})

    perms = itertools.islice(itertools.permutations(range(n)), item["lo"], item["hi"])
    seen_t2 = set()
    for pi in perms:
        t2 = R.apply(base, pi)
        if t2 in seen_t2:
            continue
        seen_t2.add(t2)
        nontrivial = t2 != base
        for p1 in pars:
            d1 = (cls, base, p1)
            o1 = _mk(cls, base, p1)
            for p2 in pars:
                d2 = (cls, t2, p2)
                o2 = _mk(cls, t2, p2)
                exp = R.same(d1, d2)
                got12, e12 = _eq(o1, o2)
                got21, e21 = _eq(o2, o1)
                out["evals"] += 2
                if nontrivial:
                    out["distinct"] += 1
                bump("equal" if exp else "unequal")
                if e12 or e21:
                    V("exception", d1, d2, f"== raised {e12 or e21}")
                    continue
                if got12 != got21:
                    V("asymmetric", d1, d2, f"{o1}=={o2} is {got12} but reversed is {got21}")
                if got12 != exp:
                    V("missed" if exp else "false-equal", d1, d2,
                      f"{o1} == {o2} is {got12}, spatial identity says {exp}")
                if exp and got12:
                    try:
                        h1, h2 = hash(o1), hash(o2)
                    except Exception as e:
                        V("hash-exception", d1, d2, f"hash raised {e!r}")
                    else:
                        out["evals"] += 1
                        if h1 != h2:
                            V("hash", d1, d2, f"{o1} == {o2} but hashes differ")
            # unspecified parity on either side: equal to every descriptor over the same atoms
            for p2 in pars + (None,):
                dn = (cls, base, None)
                d2 = (cls, t2, p2)
                on, o2 = _mk(cls, base, None), _mk(cls, t2, p2)
                g1, e1 = _eq(on, o2)
                g2, e2 = _eq(o2, on)
                out["evals"] += 2
                bump("none-parity-equal")
                if e1 or e2:
                    V("exception", dn, d2, f"== raised {e1 or e2}")
                elif not (g1 and g2):
                    V("none-parity", dn, d2, f"{on} == {o2}: {g1}/{g2}, expected True (unspecified parity, same atoms)")
                if p2 is None and g1:
                    if hash(on) != hash(o2):
                        V("hash", dn, d2, "two unspecified-parity descriptors over the same atoms hash differently")
        # inversion laws on the permuted descriptor
        for p2 in pars + (None,):
            d2 = (cls, t2, p2)
            o2 = _mk(cls, t2, p2)
            try:
                h_before = hash(o2)          # hash first: a memoised hash must not survive into the inverted descriptor
                i1 = o2.invert()
                i2 = i1.invert()
                if p2 is not None and hash(i1) != hash(_mk(cls, t2, p2 if p2 == 0 else -p2)):
                    V("invert-hash", d2, None, f"hash of {o2}.invert() (taken after hashing the original) differs from the hash of a "
                                               f"freshly built mirror descriptor")
                if hash(i2) != h_before:
                    V("invert-hash", d2, None, f"hash of {o2}.invert().invert() differs from the hash of the original")
            except Exception as e:
                V("invert-exception", d2, None, f"invert raised {e!r}")
                continue
            out["evals"] += 2
            s_before = (type(o2).__name__, tuple(o2.atoms), o2.parity)
            if s_before != d2:
                V("invert-mutates", d2, None, f"invert() changed the receiver to {s_before}")
            di1 = (type(i1).__name__, tuple(i1.atoms), i1.parity)
            di2 = (type(i2).__name__, tuple(i2.atoms), i2.parity)
            if p2 is None:
                if not (di1[0] == cls and sorted(map(repr, di1[1])) == sorted(map(repr, t2)) and di1[2] is None):
                    V("invert-none", d2, di1, "inverting an unspecified descriptor changed it")
                continue
            if not (di2[0] == cls and R.same(di2, d2)):
                V("invert-twice", d2, di2, f"invert().invert() of {o2} is {i2}")
            g, e = _eq(i2, o2)
            if e or not g:
                V("invert-twice", d2, di2, f"invert().invert() == original is {g} {e}")
            mir = R.mirror(d2)
            if not (di1[0] == cls and di1[2] is not None and R.same(di1, mir)):
                V("invert-once", d2, di1, f"invert() of {o2} is {i1}, not the mirror image")
            # the same descriptor with numpy-typed values (identifiers from an index array, the parity as the library's own
            # coords.handedness() returns it): equal to the plain one, same hash, and its inverse is the same mirror image
            if item["lo"] == 0 or len(seen_t2) % 7 == 0:
                import numpy as np

                on = _mk(cls, tuple(a if a is None else np.int64(a) for a in t2), np.int8(p2))
                try:
                    gi, ei = _eq(on, o2)
                    inv = on.invert()
                    dn = (type(inv).__name__, tuple(None if a is None else int(a) for a in inv.atoms), None if inv.parity is None else int(inv.parity))
                    out["evals"] += 2
                    if ei or not gi or hash(on) != hash(o2):
                        V("numpy-typed", d2, None, f"{on!r} (numpy-typed values) == / hash vs the plain descriptor: {gi} {ei}")
                    elif not (dn[0] == cls and R.same(dn, mir)):
                        V("numpy-typed-invert", d2, dn, f"invert() of the numpy-typed {on!r} is {inv!r}, not the mirror image")
                except Exception as e:
                    V("numpy-typed-exception", d2, None, f"{e!r}")
            exp = R.same(d2, mir)  # True for achiral classes (and for chiral ones made achiral by two placeholders)
            g, e = _eq(o2, i1)
            bump("self-mirror" if exp else "chiral")
            if e:
                V("exception", d2, di1, f"== raised {e}")
            elif g != exp:
                V("invert-eq", d2, di1, f"{o2} == its inverse is {g}, spatial identity says {exp}")
        # descriptor over different atoms is never equal, whatever the parity
        other = tuple((None if a is None else a + 1000) for a in t2)
        for p1 in pars + (None,):
            for p2 in pars + (None,):
                o1, o2 = _mk(cls, base, p1), _mk(cls, other, p2)
                if all(a is None for a in base):
                    continue
                g1, e1 = _eq(o1, o2)
                out["evals"] += 1
                if e1:
                    V("exception", (cls, base, p1), (cls, other, p2), f"== raised {e1}")
                elif g1:
                    V("different-atoms-equal", (cls, base, p1), (cls, other, p2), f"{o1} == {o2}")
    if len(out["samples"]) < 1 and item["lo"] == 0:
        out["samples"].append({"class": cls, "base": base, "perm_range": [item["lo"], item["hi"]],
                               "example_pair": [str(_mk(cls, base, pars[0])), str(_mk(cls, R.apply(base, tuple(reversed(range(n)))), pars[-1]))]})
    return out


def _partition(item):
    """Equality restricted to specified parities is an equivalence relation whose classes are the orbits of the
    oracle: partition all (ordering, parity) by the oracle's canonical form; inside a class every member equals
    the representative (both ways) and equal hashes; representatives of different classes are pairwise unequal."""
    cls = item["cls"]
    base = tuple(item["base"])
    n = len(base)
    viol = []
    out = {"evals": 0, "distinct": 0, "outcomes": {}, "viol": viol, "samples": []}
    classes = {}
    for pi in itertools.permutations(range(n)):
        if item.get("centre_fixed"):
            if cls in R.ATOM_CLASSES and pi[0] != 0:
                continue
            if cls in R.BOND_CLASSES and set(pi[2:4]) != {2, 3}:
                continue
        t = R.apply(base, pi)
        for p in R.PARITIES[cls]:
            classes.setdefault(R.canon((cls, t, p)), []).append((t, p))
    reps = []
    for k, mem in sorted(classes.items(), key=repr):
        t0, p0 = mem[0]
        r = _mk(cls, t0, p0)
        reps.append(((cls, t0, p0), r))
        hr = hash(r)
        for t, p in mem[1:]:
            o = _mk(cls, t, p)
            g1, e1 = _eq(r, o)
            g2, e2 = _eq(o, r)
            out["evals"] += 2
            out["distinct"] += 1
            if not (g1 and g2):
                viol.append({"sig": f"C04/{cls}/partition-missed", "input": f"{(cls, t0, p0)}|{(cls, t, p)}",
                             "what": f"{r} and {o} denote the same arrangement but == is {g1}/{g2} {e1 or e2 or ''}",
                             "item": item, "detail": {}})
            elif hash(o) != hr:
                viol.append({"sig": f"C04/{cls}/partition-hash", "input": f"{(cls, t0, p0)}|{(cls, t, p)}",
                             "what": f"{r} == {o} but hashes differ", "item": item, "detail": {}})
    for (d1, r1), (d2, r2) in itertools.combinations(reps, 2):
        g1, e1 = _eq(r1, r2)
        g2, e2 = _eq(r2, r1)
        out["evals"] += 2
        out["distinct"] += 1
        if g1 or g2 or e1 or e2:
            viol.append({"sig": f"C04/{cls}/partition-false-equal", "input": f"{d1}|{d2}",
                         "what": f"{r1} and {r2} are different arrangements but == is {g1}/{g2} {e1 or e2 or ''}",
                         "item": item, "detail": {}})
    out["outcomes"] = {f"orbits-{cls}": len(reps)}
    return out
