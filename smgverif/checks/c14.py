"""C14 - stereo from RDKit annotations agrees with stereo from 3D coordinates (DESIGN.md 5/C14)."""
from __future__ import annotations

import itertools

import numpy as np

from ..model import refstereo as RS
from ..universe import geom as G
from ..universe import graphs as U
from ..universe import rdcases as R

PROP = "C14"
RULE = ("(a) organic molecules over C,H,N,O,S,halogens (fixed list with tetrahedral stereocentres, E/Z bonds, rings, aromatics): EVERY "
        "stereoisomer from RDKit's enumeration, embedded with ETKDG seeds {1,2,3} (thorough 1..8): the graph imported from the "
        "annotations (stereo_complete=True, lone_pair_stereo=False) and the graph perceived from the conformer's coordinates must "
        "compare equal after planar-bond descriptors on bonds that are not formal double bonds are removed from both; (b) single "
        "centre complexes (square planar, trigonal bipyramidal, octahedral) with pairwise distinct monoatomic ligands: EVERY placement "
        "of the ligands on the template vertices (24/120/720) x bond-creation orders x centre first/last x noise {0, 0.03}: RDKit's "
        "own AssignStereochemistryFrom3D label is imported and must give a descriptor spatially identical to the one perceived from "
        "the same coordinates.  distinct = conformers / placements compared")
ASSUMPTIONS = ["RDKit's ETKDG embedding and AssignStereochemistryFrom3D are the environment",
               "embedding failures, geometries failing the general-position guard and conformers whose distance-derived connectivity "
               "(harness side) differs from the RDKit bond list are skipped and counted"]
BUDGET = {"quick": 600, "thorough": 1800}

ORG = [s for s in R.ORGANICS if "P" not in s and "[N@]" not in s and "[S@" not in s and "[H]/N" not in s] + [
    "C[C@H](O)[C@H](N)C(=O)O", "Cl/C=C/[C@H](F)C", "C[C@H](Cl)/C=C\\Br", "C[C@]12CC[C@H](C1)C2", "O=C(O)[C@H](O)[C@@H](O)C(=O)O",
    "CC(C)[C@H](N)C(=O)O", "C[C@H](S)C(=O)O", "Br/C=C/Br", "Br/C=C\\Br", "C1=C[C@H](F)C[C@@H]1Cl",
]


def items(tier, seed):
    out = [{"part": "organic", "idx": i, "tier": tier, "seed": seed} for i in range(len(ORG))]
    for cls, n in (("SP", 4), ("SPs", 4), ("SPt", 4), ("TB", 5), ("OH", 6), ("OHt", 6)):
        perms = list(itertools.permutations(range(n)))
        step = 24 if n <= 5 else 40
        for lo in range(0, len(perms), step):
            out.append({"part": "complex", "cls": cls, "lo": lo, "hi": min(len(perms), lo + step), "tier": tier, "seed": seed})
    return out


def run_item(item):
    out = {"evals": 0, "distinct": 0, "outcomes": {}, "viol": [], "samples": []}
    if item["part"] == "organic":
        return _organic(item, out)
    return _complex(item, out)


def _strip_nondouble(g, double_bonds):
    for b in list(g.bond_stereo):
        if frozenset(b) not in double_bonds:
            g.delete_bond_stereo(tuple(b))
    return g


def _organic(item, out):
    from rdkit import Chem
    from rdkit.Chem import AllChem
    from stereomolgraph import StereoMolGraph
    from stereomolgraph.coords import Geometry
    from stereomolgraph.rdmol2graph import RDMol2StereoMolGraph

    oc = out["outcomes"]
    smi = ORG[item["idx"]]
    seeds = (1, 2, 3) if item["tier"] == "quick" else tuple(range(1, 9))
    conv = RDMol2StereoMolGraph(stereo_complete=True, lone_pair_stereo=False, use_atom_map_number=False, resonance=True)
    for can, iso in R.stereoisomers(smi).items():
        mol = Chem.AddHs(iso)
        dbl = {frozenset((b.GetBeginAtomIdx(), b.GetEndAtomIdx())) for b in mol.GetBonds()
               if b.GetBondType() == Chem.BondType.DOUBLE and not b.GetIsAromatic()}
        try:
            g_ann = _strip_nondouble(conv(mol), dbl)
        except Exception as e:
            out["viol"].append({"sig": "C14/organic/import-raised:" + type(e).__name__, "input": can,
                                "what": f"import of {can} raised {e!r}", "item": item, "detail": None})
            continue
        for s in seeds:
            m3 = Chem.Mol(mol)
            if AllChem.EmbedMolecule(m3, randomSeed=s) != 0:
                oc["embed-failed"] = oc.get("embed-failed", 0) + 1
                continue
            # RDKit must agree with itself that the conformer has the annotated configuration
            chk = Chem.Mol(m3)
            Chem.AssignStereochemistryFrom3D(chk)
            if Chem.MolToSmiles(Chem.RemoveHs(chk)) != can:
                oc["embedding-has-other-configuration"] = oc.get("embedding-has-other-configuration", 0) + 1
                continue
            conf = m3.GetConformer()
            els = [a.GetSymbol() for a in m3.GetAtoms()]
            xyz = np.array([[conf.GetAtomPosition(i).x, conf.GetAtomPosition(i).y, conf.GetAtomPosition(i).z] for i in range(len(els))])
            ok, why = G.general_position(els, xyz)
            if not ok:
                oc["skipped-not-general-position"] = oc.get("skipped-not-general-position", 0) + 1
                continue
            # an embedding with a non-bonded contact below the distance criterion (or a stretched bond above it) is not
            # 'a 3D embedding of the same molecule' for a distance-based perception: the distance rule itself is C20's
            nbh, _D = G.neighbours(els, xyz)
            if {frozenset((i, j)) for i in nbh for j in nbh[i]} != {frozenset((b.GetBeginAtomIdx(), b.GetEndAtomIdx()))
                                                                   for b in m3.GetBonds()}:
                oc["skipped-embedding-with-short-contact"] = oc.get("skipped-embedding-with-short-contact", 0) + 1
                continue
            # ETKDG occasionally returns a flattened sp3 centre (all four ligands within 1 A of a common plane); such a
            # conformer is not a tetrahedral embedding and perception rightly reports a planar centre: environment, skipped
            flat = False
            for a in m3.GetAtoms():
                if a.GetDegree() == 4 and a.GetHybridization() == Chem.HybridizationType.SP3:
                    ds = G.apex_distances([xyz[n.GetIdx()] for n in a.GetNeighbors()])
                    if any(d is None or d < 1.0 for d in ds):
                        flat = True
            if flat:
                oc["skipped-flattened-sp3-centre"] = oc.get("skipped-flattened-sp3-centre", 0) + 1
                continue
            out["evals"] += 1
            out["distinct"] += 1
            try:
                scratch = np.array(xyz, dtype=np.float64)
                geo0 = Geometry(els, scratch)
                scratch *= -1.0          # the caller's array is reused (here: reflected in place) after the Geometry was built
                g_geo = _strip_nondouble(StereoMolGraph.from_geometry(geo0), dbl)
                eq = (g_ann == g_geo) and (g_geo == g_ann)
            except Exception as e:
                eq = "EXC:" + type(e).__name__
            oc["compared"] = oc.get("compared", 0) + 1
            # the same comparison through the class-level entry point (defaults: stereo_complete=True), called after an import
            # with other options in the same process; lone-pair descriptors cannot come from coordinates and are removed
            try:
                StereoMolGraph.from_rdmol(mol, stereo_complete=False)
                g_cm = StereoMolGraph.from_rdmol(mol)
                for a, d in list(g_cm.atom_stereo.items()):
                    if None in d.atoms:
                        g_cm.delete_atom_stereo(a)
                for b, d in list(g_cm.bond_stereo.items()):
                    if None in d.atoms:
                        g_cm.delete_bond_stereo(tuple(b))
                g_cm = _strip_nondouble(g_cm, dbl)
                g_geo2 = StereoMolGraph.from_geometry(Geometry(els, xyz))
                for b, d in list(g_geo2.bond_stereo.items()):
                    if None in d.atoms:
                        g_geo2.delete_bond_stereo(tuple(b))
                g_geo2 = _strip_nondouble(g_geo2, dbl)
                eq2 = (g_cm == g_geo2) and (g_geo2 == g_cm)
            except Exception as e:
                eq2 = "EXC:" + type(e).__name__
            if eq2 is not True and eq is True:
                out["viol"].append({"sig": "C14/organic/classmethod-from_rdmol", "input": f"{can}|seed{s}",
                                    "what": f"{can} (embedding seed {s}): StereoMolGraph.from_rdmol(mol) == graph from coordinates is {eq2} "
                                            f"although the converter with the same options agrees with the coordinates",
                                    "item": item, "detail": None})
            if eq is not True:
                ma, mg = U.from_real(g_ann), U.from_real(g_geo)
                what = []
                if set(ma.bonds) != set(mg.bonds):
                    what.append("connectivity")
                for c in set(ma.astereo) | set(mg.astereo):
                    a, b = ma.astereo.get(c), mg.astereo.get(c)
                    if a is None or b is None or a[2] is None or b[2] is None or not RS.same(a, b):
                        what.append(f"atom{c}:{a}/{b}")
                for c in set(ma.bstereo) | set(mg.bstereo):
                    a, b = ma.bstereo.get(c), mg.bstereo.get(c)
                    if a is None or b is None or a[2] is None or b[2] is None or not RS.same(a, b):
                        what.append(f"bond{sorted(c)}:{a}/{b}")
                kinds = sorted({w.split(":")[0].rstrip("0123456789[], ") for w in what}) or ["isomorphism-only"]
                out["viol"].append({"sig": "C14/organic/" + "+".join(kinds), "input": f"{can}|seed{s}",
                                    "what": f"{can} (embedding seed {s}): annotation graph == coordinate graph is {eq}; local differences "
                                            f"{what[:4]}", "item": item, "detail": {"differences": what[:10]}})
            # the same conformer with its atoms renumbered by RDKit (reversed; rotated by a third): bonds are then stored with
            # begin index > end index, neighbour lists in another order - annotation import and coordinates must still agree
            if eq is True:
                n = m3.GetNumAtoms()
                for oname, order in (("reversed", list(range(n - 1, -1, -1))), ("rotated", [(i + n // 3 + 1) % n for i in range(n)])):
                    mr = Chem.RenumberAtoms(m3, order)
                    dblr = {frozenset((b.GetBeginAtomIdx(), b.GetEndAtomIdx())) for b in mr.GetBonds()
                            if b.GetBondType() == Chem.BondType.DOUBLE and not b.GetIsAromatic()}
                    cr = mr.GetConformer()
                    elsr = [a.GetSymbol() for a in mr.GetAtoms()]
                    xyzr = np.array([[cr.GetAtomPosition(i).x, cr.GetAtomPosition(i).y, cr.GetAtomPosition(i).z] for i in range(n)])
                    out["evals"] += 1
                    out["distinct"] += 1
                    oc["compared-renumbered"] = oc.get("compared-renumbered", 0) + 1
                    try:
                        ga = _strip_nondouble(conv(mr), dblr)
                        gg = _strip_nondouble(StereoMolGraph.from_geometry(Geometry(elsr, xyzr)), dblr)
                        eqr = (ga == gg) and (gg == ga)
                    except Exception as e:
                        eqr = "EXC:" + type(e).__name__
                    if eqr is not True:
                        out["viol"].append({"sig": f"C14/organic/renumbered-{oname}", "input": f"{can}|seed{s}",
                                            "what": f"{can} (embedding seed {s}), atoms renumbered ({oname}): annotation graph == "
                                                    f"coordinate graph is {eqr}, although they agree in the original atom order",
                                            "item": item, "detail": None})
    out["samples"].append({"smiles": smi, "stereoisomers": list(R.stereoisomers(smi))})
    return out


TEMPL = {"SP": ("Pt", G.SQ, G.METAL_LEN, ["F", "Cl", "Br", "I"], "SquarePlanar"),
         "TB": ("P", G.TBP, {k: v + 0.25 for k, v in G.BOND_LEN.items()}, ["H", "F", "Cl", "Br", "I"], "TrigonalBipyramidal"),
         "OH": ("W", G.OCT, G.METAL_LEN, ["H", "F", "Cl", "Br", "I", "O"], "Octahedral"),
         # heavy ligands at long bonds, every axis bent by 5 degrees (a realistic distortion; out-of-plane distances stay far
         # from the 1 A planarity threshold, out-of-plane VOLUMES do not scale the same way)
         "OHt": ("Pt", None, {"F": 2.0, "Cl": 2.35, "Br": 2.5, "I": 2.7, "S": 2.35, "Se": 2.45}, ["F", "Cl", "Br", "I", "S", "Se"],
                 "Octahedral")}


def _tilted_oct():
    t = np.deg2rad(5.0)
    c, s_ = np.cos(t), np.sin(t)
    # both ligands of an axis lean the same way (trans angles of 170 degrees); vertex order as in G.OCT: +z -z +x +y -x -y
    e = np.eye(3)
    v = {}
    for axis, towards in ((2, 0), (0, 1), (1, 2)):
        for sign in (1.0, -1.0):
            v[(axis, sign)] = sign * c * e[axis] + s_ * e[towards]
    return np.array([v[(2, 1.0)], v[(2, -1.0)], v[(0, 1.0)], v[(1, 1.0)], v[(0, -1.0)], v[(1, -1.0)]], dtype=float)


TEMPL["OHt"] = (TEMPL["OHt"][0], _tilted_oct(), *TEMPL["OHt"][2:])
# square-planar centres of elements to which RDKit's sanitisation gives sp3 hybridisation (main-group / early transition metals):
# the label assigned from the coordinates is CHI_SQUAREPLANAR all the same
TEMPL["SPs"] = ("Sn", G.SQ, G.METAL_LEN, ["F", "Cl", "Br", "I"], "SquarePlanar")
TEMPL["SPt"] = ("Ti", G.SQ, G.METAL_LEN, ["F", "Cl", "Br", "I"], "SquarePlanar")


def _elongated(item, out, mol, els, xyz, c, place, conv, dname):
    """Jahn-Teller-like octahedron: the two ligands on the z axis are moved out beyond the default bonding distance and the
    coordinates are perceived with a caller-supplied switching function whose metal-ligand cut-offs are raised: six bonds, and the
    octahedral descriptor must still agree with the label RDKit assigns to the same coordinates"""
    from rdkit import Chem
    from rdkit.Geometry import Point3D
    from stereomolgraph import MolGraph, StereoMolGraph
    from stereomolgraph.coords import BondsFromDistance, Geometry

    r = G.radii()
    from ..model.elements import Z as ZZ

    x0 = np.array(xyz, dtype=float) - np.array(xyz[c], dtype=float)
    Q = G.generic_rotation(item["seed"])
    local = x0 @ Q          # undo the generic rotation (xyz = local @ Q.T + t)
    x1 = local.copy()
    moved = []
    for i in range(len(els)):
        if i != c and abs(local[i][2]) > 0.9 * np.linalg.norm(local[i]):
            d = 1.32 * (r[ZZ[els[c]]] + r[ZZ[els[i]]])
            x1[i] = local[i] / np.linalg.norm(local[i]) * d
            moved.append(i)
    if len(moved) != 2:
        return
    x1 = x1 @ Q.T + np.array(xyz[c], dtype=float)
    sf = BondsFromDistance()
    for i in range(len(els)):
        if i != c:
            sf.connectivity_cutoff[(ZZ[els[c]], ZZ[els[i]])] = 1.8 * (r[ZZ[els[c]]] + r[ZZ[els[i]]])
    m2 = Chem.RWMol(mol)
    conf = m2.GetConformer()
    for i, p in enumerate(x1):
        conf.SetAtomPosition(i, Point3D(*map(float, p)))
    mol2 = m2.GetMol()
    try:
        Chem.AssignStereochemistryFrom3D(mol2)
    except Exception:
        return
    if str(mol2.GetAtomWithIdx(c).GetChiralTag()) != "CHI_OCTAHEDRAL":
        return
    out["evals"] += 1
    out["distinct"] += 1
    out["outcomes"]["compared-OH-elongated"] = out["outcomes"].get("compared-OH-elongated", 0) + 1
    inp = f"OH-elongated|{place}"
    try:
        d_ann = U.from_real(conv(mol2)).astereo.get(c)
        g = StereoMolGraph.from_geometry(Geometry(els, x1), sf)
        gm = MolGraph.from_geometry(Geometry(els, x1), sf)
        d_geo = U.from_real(g).astereo.get(c)
    except Exception as e:
        out["viol"].append({"sig": "C14/complex/OH-elongated/raised:" + type(e).__name__, "input": inp, "what": f"{e!r}", "item": item,
                            "detail": None})
        return
    if len(gm.bonds) != 6 or {frozenset(b) for b in g.bonds} != {frozenset(b) for b in gm.bonds}:
        out["viol"].append({"sig": "C14/complex/OH-elongated/connectivity", "input": inp,
                            "what": f"with the caller's switching function MolGraph.from_geometry finds {len(gm.bonds)} bonds and "
                                    f"StereoMolGraph.from_geometry {len(g.bonds)} (expected 6 and 6)", "item": item, "detail": None})
        return
    good = (d_ann is not None and d_geo is not None and d_ann[0] == dname and d_geo[0] == dname and d_ann[2] is not None
            and d_geo[2] is not None and RS.same(d_ann, d_geo))
    if not good:
        out["viol"].append({"sig": "C14/complex/OH-elongated/descriptor-differs", "input": inp,
                            "what": f"elongated octahedron, ligands on vertices {place}: imported {d_ann} vs perceived with the caller's "
                                    f"switching function {d_geo}", "item": item, "detail": None})


def _complex(item, out):
    from rdkit import Chem
    from rdkit.Geometry import Point3D
    from stereomolgraph import StereoMolGraph
    from stereomolgraph.coords import Geometry
    from stereomolgraph.rdmol2graph import RDMol2StereoMolGraph

    oc = out["outcomes"]
    cls, seed = item["cls"], item["seed"]
    centre, dirs, lens, ligs, dname = TEMPL[cls]
    n = len(ligs)
    conv = RDMol2StereoMolGraph(stereo_complete=True, lone_pair_stereo=True, use_atom_map_number=False, resonance=False)
    perms = list(itertools.permutations(range(n)))[item["lo"]:item["hi"]]
    bond_orders = [list(range(n)), list(reversed(range(n))), list(range(1, n)) + [0]]
    if cls == "OHt":
        bond_orders = bond_orders[:1]
    for place in perms:
        # ligand k sits on vertex place[k]
        for sigma in (0.0, 0.03):
            for centre_last in (False, True):
                for bo in bond_orders:
                    lig_xyz = [dirs[place[k]] * lens[ligs[k]] for k in range(n)]
                    if centre_last:
                        els = list(ligs) + [centre]
                        xyz = np.array(lig_xyz + [np.zeros(3)])
                        c = n
                        lig_idx = list(range(n))
                    else:
                        els = [centre] + list(ligs)
                        xyz = np.array([np.zeros(3)] + lig_xyz)
                        c = 0
                        lig_idx = list(range(1, n + 1))
                    xyz = xyz + G.noise(n + 1, sigma, seed, k=hash((place, centre_last)) % 1000)
                    xyz = xyz @ G.generic_rotation(seed).T + G.translation(seed)
                    ok, why = G.general_position(els, xyz)
                    if not ok:
                        oc["skipped-not-general-position"] = oc.get("skipped-not-general-position", 0) + 1
                        continue
                    m = Chem.RWMol()
                    for e in els:
                        a = Chem.Atom(e)
                        a.SetNoImplicit(True)
                        m.AddAtom(a)
                    for k in bo:
                        m.AddBond(c, lig_idx[k], Chem.BondType.SINGLE)
                    conf = Chem.Conformer(n + 1)
                    for i, p in enumerate(xyz):
                        conf.SetAtomPosition(i, Point3D(*map(float, p)))
                    m.AddConformer(conf)
                    mol = m.GetMol()
                    try:
                        Chem.SanitizeMol(mol, Chem.SANITIZE_ALL ^ Chem.SANITIZE_PROPERTIES)
                        Chem.AssignStereochemistryFrom3D(mol)
                    except Exception:
                        oc["rdkit-failed"] = oc.get("rdkit-failed", 0) + 1
                        continue
                    tag = mol.GetAtomWithIdx(c).GetChiralTag()
                    if str(tag) not in ("CHI_SQUAREPLANAR", "CHI_TRIGONALBIPYRAMIDAL", "CHI_OCTAHEDRAL"):
                        oc["rdkit-no-label"] = oc.get("rdkit-no-label", 0) + 1
                        continue
                    if cls == "OHt" and centre_last:
                        continue
                    if cls == "OH" and sigma == 0.0 and not centre_last and bo is bond_orders[0]:
                        _elongated(item, out, mol, els, xyz, c, place, conv, dname)
                    out["evals"] += 1
                    out["distinct"] += 1
                    oc["compared-" + cls] = oc.get("compared-" + cls, 0) + 1
                    inp = f"{cls}|{place}|s{sigma}|last{centre_last}|{bo}"
                    try:
                        d_ann = U.from_real(conv(mol)).astereo.get(c)
                        # (the array handed to Geometry is a scratch copy that is overwritten straight afterwards: a Geometry keeps
                        #  describing the shape it was built from)
                        scratch = np.array(xyz, dtype=np.float64)
                        geo = Geometry(els, scratch)
                        scratch *= -1.0
                        d_geo = U.from_real(StereoMolGraph.from_geometry(geo)).astereo.get(c)
                    except Exception as e:
                        out["viol"].append({"sig": f"C14/complex/{cls}/raised:" + type(e).__name__, "input": inp,
                                            "what": f"{e!r}", "item": item, "detail": None})
                        continue
                    good = (d_ann is not None and d_geo is not None and d_ann[0] == dname and d_geo[0] == dname
                            and d_ann[2] is not None and d_geo[2] is not None and RS.same(d_ann, d_geo))
                    if good and sigma == 0.0 and bo is bond_orders[0]:
                        # the same label imported by atom-map number (scattered numbers): the descriptor must sit on the mapped
                        # centre and name the mapped ligands
                        mm = Chem.Mol(mol)
                        mp = {}
                        for at in mm.GetAtoms():
                            mp[at.GetIdx()] = ((at.GetIdx() * 11 + 3) % (n + 1)) * 7 + 11    # (11 is coprime to 5, 6, 7: a permutation)
                            at.SetAtomMapNum(mp[at.GetIdx()])
                        out["evals"] += 1
                        try:
                            gm_ = RDMol2StereoMolGraph(stereo_complete=True, lone_pair_stereo=True, use_atom_map_number=True, resonance=False)(mm)
                            dm = U.from_real(gm_).astereo.get(mp[c])
                            exp_d = (d_geo[0], tuple(None if a is None else mp[a] for a in d_geo[1]), d_geo[2])
                            if dm is None or dm[0] != dname or dm[2] is None or not RS.same(dm, exp_d):
                                out["viol"].append({"sig": f"C14/complex/{cls}/by-map-number", "input": inp,
                                                    "what": f"{cls} centre imported by atom-map number: descriptor on atom {mp[c]} is {dm}, the "
                                                            f"coordinates (renamed) give {exp_d}", "item": item, "detail": None})
                        except Exception as e:
                            out["viol"].append({"sig": f"C14/complex/{cls}/by-map-number-raised:" + type(e).__name__, "input": inp,
                                                "what": f"import by atom-map number raised {e!r}", "item": item, "detail": None})
                    if not good:
                        lab = mol.GetAtomWithIdx(c).GetPropsAsDict().get("_chiralPermutation")
                        out["viol"].append({"sig": f"C14/complex/{cls}/descriptor-differs", "input": inp,
                                            "what": f"{cls} centre, ligands {ligs} on vertices {place}, RDKit label {lab}: imported {d_ann} "
                                                    f"vs perceived {d_geo}", "item": item, "detail": None})
    if item["lo"] == 0:
        out["samples"].append({"class": cls, "ligands": ligs, "placements": len(list(itertools.permutations(range(n))))})
    return out
