"""C07 - perception from coordinates depends only on the 3D shape (DESIGN.md 5/C07)."""
from __future__ import annotations

import itertools
from functools import lru_cache

import numpy as np

from ..model import refstereo as RS
from ..universe import geom as G
from ..universe import graphs as U

PROP = "C07"
RULE = ("geometries in general position (harness-side guard: no distance within 2% of a bonding cut-off, every 4-set the "
        "perception may test has all four apex-to-plane distances on one side of the 1.0 A threshold with 0.05 A margin): idealised "
        "tetrahedral / square-planar / trigonal-bipyramidal / octahedral / planar-bond templates (distinct and partly identical "
        "ligands), the same templates among 16-18 far-away spectator atoms with the identifiers scattered by every affine index map "
        "i -> a+b*i mod 23 (quick: 8 multipliers), the repository's XYZ files, RDKit-embedded organics; x ALL atom permutations (<=7 atoms; transpositions, shifts, "
        "reversal above) x rigid-motion grid (24 cube rotations o seed-derived generic rotation + translation, also by 1e8 A) x {proper, three "
        "reflections} x noise {0, 0.02, 0.05 A}; reaction triples with reactant / product / TS moved independently.  Differential "
        "oracle: graph(pi.R.x) renamed by pi^-1 has the same bonds and spatially identical descriptors (mirror descriptors under a "
        "reflection); every descriptor names the centre and exactly its bonded neighbours; 288 atoms (48 haloethenes) under six "
        "reorderings; a caller-supplied switching function (C-Cl cut-off raised, or set to 0.0, stored in either orientation) on a five-coordinate "
        "carbon under all 720 orders; the caller's array overwritten after Geometry(...) was built.  distinct = perceptions compared")
ASSUMPTIONS = ["a finite grid of a continuum; VERIF_SEED selects the generic rotation / translation / noise vectors",
               "geometries failing the general-position guard are skipped and counted",
               "thresholds themselves (1.2 x radii, 1.0 A planarity) are out of scope by the property's text"]
BUDGET = {"quick": 600, "thorough": 1500}


@lru_cache(None)
def sources(tier):
    S = {}
    for k, (els, xyz, kind) in G.templates().items():
        S["T:" + k] = (els, xyz)
    # the same templates among spectator atoms (isolated He atoms far away): 23 atoms in all, so that the identifiers of a centre
    # and its ligands can be scattered (affine index maps below) - neighbour sets then iterate in non-ascending identifier order
    for k in ("tet-CFClBrI", "sp-PtFClBrI", "tbp-PHFClBrI", "tbp-PF2Cl3", "oct-WHFClBrIO", "pb-CFCl=CBrI", "pb-Z-CHF=CHCl"):
        els, xyz, kind = G.templates()[k]
        ns = NSPECT - len(els)
        sp = np.array([[40.0 + 9.0 * i, 35.0 + 2.5 * (i % 3), -30.0 - 1.5 * (i % 5)] for i in range(ns)])
        S["S:" + k] = (list(els) + ["He"] * ns, np.vstack([np.array(xyz, dtype=float), sp]))
    # 48 well separated copies of (Z)- and (E)-CHF=CHF, 288 atoms: indices beyond 127 / 255 / 256 carry descriptors too
    elsZ, xyzZ, _ = G.templates()["pb-Z-CHF=CHCl"]
    elsE, xyzE, _ = G.templates()["pb-E-CHF=CHCl"]
    bigels, bigxyz = [], []
    for c in range(48):
        shift = np.array([9.0 * (c % 8), 9.0 * (c // 8) + 0.37 * (c % 3), 1.3 * (c % 5)])
        bigels += list(elsZ if c % 2 == 0 else elsE)
        bigxyz.append(np.array(xyzZ if c % 2 == 0 else xyzE, dtype=float) + shift)
    S["L:haloethene-x48"] = (bigels, np.vstack(bigxyz))
    # strained alkenes twisted by 15 / 18 degrees with unequal substituents: seen from one end the six atoms are within the
    # planarity tolerance (largest out-of-plane distance 0.66 A), seen from the other end they are not (1.5 A) - neither value is
    # near the 1.0 A threshold.  The harness guard (which wants every 4-subset on one side) does not apply to these two sources;
    # what is asked is only what the property says: the same graph for every atom order and motion.
    def twisted(el_a, d_a, el_b, d_b, twist, cc=1.34):
        t = np.radians(twist)
        c60, s60 = np.cos(np.radians(60)), np.sin(np.radians(60))
        sa = [np.array([-d_a * c60, sg * d_a * s60, 0.0]) for sg in (1, -1)]
        sb = [np.array([cc + d_b * c60, sg * d_b * s60 * np.cos(t), sg * d_b * s60 * np.sin(t)]) for sg in (1, -1)]
        return ["C", "C", el_a, el_a, el_b, el_b], np.array([[0, 0, 0], [cc, 0, 0], *sa, *sb], dtype=float)
    S["W:twisted15-H2C=CI2"] = twisted("H", 1.09, "I", 2.14, 15.0)
    S["W:twisted18-H2C=CBr2"] = twisted("H", 1.09, "Br", 1.95, 18.0)
    for k, v in G.repo_xyz().items():
        S["F:" + k] = v
    for k, v in G.embedded((1,) if tier == "quick" else (1, 2, 3)).items():
        S["E:" + k] = v
    return S


NSPECT = 23   # prime: every multiplier 1..22 gives a permutation i -> (a + b*i) mod 23


def perm_family(n, tier, name=""):
    ids = list(range(n))
    if name.startswith("L:"):
        return [tuple(ids), tuple(reversed(ids)), tuple(ids[100:] + ids[:100]), tuple(ids[257:] + ids[:257]), tuple(ids[1:] + ids[:1]),
                tuple(ids[3::6] + ids[0::6] + ids[1::6] + ids[2::6] + ids[4::6] + ids[5::6])]
    if name.startswith("S:"):
        bs = (1, 2, 3, 5, 7, 11, 13, 22) if tier == "quick" else range(1, n)
        return [tuple((a + b * i) % n for i in ids) for b in bs for a in range(n)]
    if n <= (7 if tier == "thorough" else 7):
        return list(itertools.permutations(ids))
    fam = [tuple(ids[k:] + ids[:k]) for k in range(n)] + [tuple(reversed(ids))]
    pairs = list(itertools.combinations(ids, 2))
    if n > 14:
        pairs = [(i, i + 1) for i in range(n - 1)] + [(0, n - 1), (1, n // 2)]
    for i, j in pairs:
        p = ids[:]
        p[i], p[j] = p[j], p[i]
        fam.append(tuple(p))
    return list(dict.fromkeys(fam))


def items(tier, seed):
    out = []
    for name, (els, xyz) in sources(tier).items():
        n = len(els)
        P = perm_family(n, tier, name)
        step = 720 if n >= 6 else 2000
        for sig in ((0.0,) if (tier == "quick" and n > 7) else (0.0, 0.02, 0.05)):
            if sig > 0 and not name.startswith("T:"):
                continue
            for lo in range(0, len(P), step):
                out.append({"src": name, "sigma": sig, "lo": lo, "hi": min(len(P), lo + step), "tier": tier, "seed": seed})
    for rname in ("conrot_reaction", "disrot_reaction", "fcb", "phosgenation", "sn2"):
        out.append({"reaction": rname, "tier": tier, "seed": seed})
    for orient in (0, 1, 2, 3):
        out.append({"custom_cutoff": orient, "tier": tier, "seed": seed})
    out.sort(key=lambda it: (len(sources(tier)[it["src"]][0]) if "src" in it else 99, it.get("lo", 0)))
    return out


def perceive(els, xyz):
    from stereomolgraph import StereoMolGraph
    from stereomolgraph.coords import Geometry

    return StereoMolGraph.from_geometry(Geometry(list(els), np.array(xyz)))


def validity(g, m):
    """every descriptor is expressed in the real identifiers of the centre and of exactly its bonded neighbours"""
    bad = []
    for c, d in m.astereo.items():
        at = [a for a in d[1] if a is not None]
        if d[1][0] != c or sorted(at[1:]) != sorted(m.nbrs(c)):
            bad.append(("atom", c, d))
    for c, d in m.bstereo.items():
        t = d[1]
        a, b = t[2], t[3]
        if frozenset((a, b)) != c or c not in m.bonds:
            bad.append(("bond", sorted(c), d))
            continue
        if sorted(x for x in t[0:2] if x is not None) != sorted(m.nbrs(a) - {b}) or \
                sorted(x for x in t[4:6] if x is not None) != sorted(m.nbrs(b) - {a}):
            bad.append(("bond", sorted(c), d))
    try:
        if not g.is_stereo_valid():
            bad.append(("is_stereo_valid", False, None))
    except Exception as e:
        bad.append(("is_stereo_valid", type(e).__name__, None))
    return bad


def compare(m0, m1, reflected):
    """m1 already renamed into m0's identifiers; returns list of (clause, detail)"""
    out = []
    if {a: d["atom_type"] for a, d in m0.atoms.items()} != {a: d["atom_type"] for a, d in m1.atoms.items()}:
        out.append(("atoms", None))
    if set(m0.bonds) != set(m1.bonds):
        out.append(("bonds", sorted(map(sorted, set(m0.bonds) ^ set(m1.bonds)))))
        return out
    for name in ("astereo", "bstereo"):
        s0, s1 = getattr(m0, name), getattr(m1, name)
        if set(s0) != set(s1):
            out.append((name + "-centres", [str(k) for k in set(s0) ^ set(s1)]))
            continue
        for c in s0:
            d0 = RS.mirror(s0[c]) if reflected else s0[c]
            d1 = s1[c]
            if d0[2] is None or d1[2] is None or not RS.same(d0, d1):
                out.append((name + ":" + d0[0] + ("-reflected" if reflected else ""), {"expected": d0, "got": d1}))
    return out


def motions(tier, seed, few):
    """list of (label, R, t, reflected)"""
    Q = G.generic_rotation(seed)
    t = G.translation(seed)
    M = [("generic", Q, t, False), ("generic+refl-x", G.REFLECTIONS[0] @ Q, t, True)]
    if few:
        return M
    # a translation by 1e8 A (float64 still resolves 1.5e-8 A there: the shape is unchanged to far below every margin)
    M.append(("far", Q, np.array([1.0e8, -7.0e7, 3.0e7]) + t, False))
    M.append(("far+refl", G.REFLECTIONS[1] @ Q, np.array([-9.0e7, 1.0e8, 5.0e7]) - t, True))
    for i, C in enumerate(G.cube_rotations()):
        M.append((f"cube{i}", C @ Q, t, False))
    for j, F in enumerate(G.REFLECTIONS):
        M.append((f"refl{j}", F, np.zeros(3), True))
        M.append((f"refl{j}+generic", F @ Q, -t, True))
    if tier == "thorough":
        for k in (1, 2, 3):
            Qk = G.generic_rotation(seed, k)
            M.append((f"generic{k}", Qk, G.translation(seed, k), False))
            M.append((f"generic{k}+refl", G.REFLECTIONS[k % 3] @ Qk, G.translation(seed, k), True))
    return M


def run_item(item):
    out = {"evals": 0, "distinct": 0, "outcomes": {}, "viol": [], "samples": []}
    if "reaction" in item:
        return _reaction(item, out)
    if "custom_cutoff" in item:
        return _custom_cutoff(item, out)
    oc = out["outcomes"]
    tier, seed = item["tier"], item["seed"]
    els, xyz0 = sources(tier)[item["src"]]
    n = len(els)
    xyz = xyz0 + G.noise(n, item["sigma"], seed)
    ok, why = G.general_position(els, xyz)
    if item["src"].startswith("W:"):
        ok = True          # see sources(): deliberately beyond the guard, well away from the threshold from either end
    if not ok:
        oc["skipped-not-general-position"] = 1
        out["extra"] = {"skipped_geometries": 1}
        return out
    fam = item["src"].split(":")[0] + (":" + item["src"].split(":")[1].split("-")[0] if item["src"].startswith(("T:", "S:", "W:")) else "")

    def V(clause, what, detail=None, inp=""):
        out["viol"].append({"sig": f"C07/{fam}/{clause}", "input": f"{item['src']}|s={item['sigma']}|{inp}",
                            "what": what + f" [{item['src']} sigma={item['sigma']}]", "item": dict(item), "detail": detail})

    try:
        g0 = perceive(els, xyz)
    except Exception as e:
        V("base-raised:" + type(e).__name__, f"from_geometry raised {e!r}")
        return out
    m0 = U.from_real(g0)
    if item["lo"] == 0:
        # the caller's coordinate array is overwritten (reflected in place) after the Geometry was made: the Geometry must keep
        # describing the shape it was built from
        from stereomolgraph import StereoMolGraph
        from stereomolgraph.coords import Geometry

        arr = np.array(xyz, dtype=np.float64)
        geo = Geometry(list(els), arr)
        arr *= -1.0
        out["evals"] += 1
        try:
            ma = U.from_real(StereoMolGraph.from_geometry(geo))
            for clause, det in compare(m0, ma, False):
                V("input-array-aliased:" + clause, "the caller's coordinate array was reflected in place after Geometry(...) was built and "
                  f"the graph perceived from that Geometry changed: {clause} {det}", det, inp="alias")
        except Exception as e:
            V("input-array-aliased-raised:" + type(e).__name__, f"from_geometry raised {e!r}", inp="alias")
    bad = validity(g0, m0)
    if bad:
        V("invalid-descriptor:" + str(bad[0][0]), f"perceived descriptor does not name the centre and its bonded neighbours: {bad[:2]}",
          {"bad": bad[:4]})
    oc["descriptors-in-base"] = len(m0.astereo) + len(m0.bstereo)
    P = perm_family(n, tier, item["src"])[item["lo"]:item["hi"]]
    for k, pi in enumerate(P):
        ident = list(pi) == list(range(n))
        # quick: full motion grid on the identity order, two motions on every other order; thorough: full grid on every
        # order of molecules with <= 6 atoms and on every 7th order of 7-atom molecules
        full = ident or (tier == "thorough" and (n <= 6 or (n == 7 and (item["lo"] + k) % 7 == 0)))
        for label, R, t, refl in motions(tier, seed, few=not full):
            moved = xyz @ R.T + t
            els1 = [els[j] for j in pi]
            xyz1 = moved[list(pi)]
            try:
                g1 = perceive(els1, xyz1)
            except Exception as e:
                V("raised:" + type(e).__name__, f"from_geometry raised {e!r} after permutation {pi} / motion {label}", inp=f"{pi}|{label}")
                continue
            out["evals"] += 1
            out["distinct"] += 1
            oc["reflected" if refl else "proper"] = oc.get("reflected" if refl else "proper", 0) + 1
            m1 = U.from_real(g1)
            bad = validity(g1, m1)
            if bad:
                V("invalid-descriptor:" + str(bad[0][0]), f"descriptor not over centre+neighbours after permutation {pi}: {bad[:2]}",
                  {"bad": bad[:4]}, inp=f"{pi}|{label}")
                continue
            m1 = m1.relabel({j: pi[j] for j in range(n)})
            for clause, det in compare(m0, m1, refl):
                V(("perm" if not ident else "motion") + ":" + clause,
                  f"perception changed under atom permutation {pi} and motion {label}: {clause} {det}", det, inp=f"{pi}|{label}")
    if item["lo"] == 0:
        out["samples"].append({"source": item["src"], "sigma": item["sigma"], "atoms": n, "permutations": len(perm_family(n, tier)),
                               "base": U.describe(m0)})
    return out


def _reaction_sources(name):
    F = G.repo_xyz()
    if name == "sn2":
        r, p, ts = G.sn2_triple()
        assert G.robustly_nonplanar(ts[1][1:])
        return r, p, ts
    if name in ("conrot_reaction", "disrot_reaction"):
        r = F.get(f"{name}/(2S,3S)-1,1-Dichlor-2,3-dimethylcyclopropane.xyz")
        p = F.get(f"{name}/(Z)-(4S)-3,4-Dichlor-2-pentene.xyz")
        ts = F.get(f"{name}/ts.xyz")
    elif name == "fcb":
        r, p, ts = (F.get(f"fluoro_chloro_bromomethane_{x}.xyz") for x in ("r", "s", "ts"))
    else:
        r, p, ts = (F.get(f"methylamine_phosgenation_trans_{x}.xyz") for x in ("r", "p", "ts"))
    return r, p, ts


def _reaction(item, out):
    from stereomolgraph import StereoCondensedReactionGraph
    from stereomolgraph.coords import Geometry

    oc = out["outcomes"]
    tier, seed = item["tier"], item["seed"]
    r, p, ts = _reaction_sources(item["reaction"])
    if r is None or p is None or ts is None or not (r[0] == p[0] == ts[0]):
        oc["reaction-missing"] = 1
        return out
    for geo in (r, p, ts):
        ok, why = G.general_position(*geo)
        if not ok:
            oc["skipped-not-general-position"] = 1
            out["extra"] = {"skipped_geometries": 1}
            return out
    els = r[0]
    n = len(els)

    def build(pi, mr, mp, mt):
        def mv(geo, M):
            R, t = M
            x = geo[1] @ R.T + t
            return Geometry([els[j] for j in pi], x[list(pi)])

        return StereoCondensedReactionGraph.from_geometries(mv(r, mr), mv(p, mp), mv(ts, mt))

    I = (np.eye(3), np.zeros(3))
    try:
        g0 = build(tuple(range(n)), I, I, I)
    except Exception as e:
        out["viol"].append({"sig": f"C07/reaction/{item['reaction']}/base-raised:{type(e).__name__}", "input": item["reaction"],
                            "what": f"from_geometries raised {e!r}", "item": item, "detail": None})
        return out
    m0 = U.from_real(g0)
    Ms = [(G.generic_rotation(seed, k), G.translation(seed, k)) for k in range(4)] + [(C, np.zeros(3)) for C in G.cube_rotations()[1:6]]
    fam = perm_family(n, tier)
    fam = fam if (len(fam) <= 60 or item["reaction"] == "sn2") else fam[:60]
    for pi in fam:
        for (a, b, c) in ((0, 1, 2), (3, 3, 3), (4, 0, 5), (1, 6, 0)):
            try:
                g1 = build(pi, Ms[a], Ms[b], Ms[c])
            except Exception as e:
                out["viol"].append({"sig": f"C07/reaction/{item['reaction']}/raised:{type(e).__name__}", "input": f"{pi}",
                                    "what": f"from_geometries raised {e!r} under permutation {pi}", "item": item, "detail": None})
                continue
            out["evals"] += 1
            out["distinct"] += 1
            oc["reaction-proper"] = oc.get("reaction-proper", 0) + 1
            m1 = U.from_real(g1).relabel({j: pi[j] for j in range(n)})
            from . import c06 as C6

            bad = C6.same_graph(m1, m0)
            if bad:
                out["viol"].append({"sig": f"C07/reaction/{item['reaction']}/changed:" + "+".join(bad), "input": f"{pi}|{a}{b}{c}",
                                    "what": f"reaction graph from independently moved reactant/product/TS differs in {bad} (permutation {pi})",
                                    "item": item, "detail": None})
    out["samples"].append({"reaction": item["reaction"], "atoms": n, "base": U.describe(m0)})
    return out


def _custom_cutoff(item, out):
    """a caller-supplied switching function whose C-Cl cut-off is raised to 2.7 A (stored in one orientation of the element pair):
    [Cl...CH3-Cl] with the long contact at 2.45 A is then five-coordinate.  All 720 atom orders x two motions: the same graph
    (bonds and descriptors) as in the base order, MolGraph and StereoMolGraph agree on the bonds, and the default function still
    gives four-coordinate carbon."""
    from stereomolgraph import MolGraph, StereoMolGraph
    from stereomolgraph.coords import BondsFromDistance, Geometry

    oc = out["outcomes"]
    seed = item["seed"]
    els = ["C", "H", "H", "H", "Cl", "Cl"]
    xyz = np.array([[0.0, 0.0, 0.0], [1.03, 0.0, 0.18], [-0.515, 0.892, 0.18], [-0.515, -0.892, 0.18], [0.0, 0.0, -1.95], [0.0, 0.0, 2.45]])
    xyz = xyz + G.noise(6, 0.02, seed)
    key = (6, 17) if item["custom_cutoff"] % 2 == 0 else (17, 6)
    zero = item["custom_cutoff"] >= 2          # variants 2, 3: the C-Cl pair is switched off altogether (cut-off 0.0)

    def sf():
        f = BondsFromDistance()
        f.connectivity_cutoff[key] = 0.0 if zero else 2.7
        return f

    def V(clause, what, inp=""):
        out["viol"].append({"sig": f"C07/custom-cutoff/{clause}", "input": f"{key}|{inp}", "what": what + f" [override {key} -> 2.7 A]",
                            "item": item, "detail": None})

    g0 = StereoMolGraph.from_geometry(Geometry(els, xyz), sf())
    m0 = U.from_real(g0)
    if len(m0.nbrs(0)) != (3 if zero else 5):
        V("override-ignored", f"carbon has {len(m0.nbrs(0))} neighbours with the {'zero' if zero else 'raised'} cut-off, expected "
                              f"{3 if zero else 5}")
    gd = StereoMolGraph.from_geometry(Geometry(els, xyz))
    if len(U.from_real(gd).nbrs(0)) != 4:
        V("default-changed", "the default switching function no longer gives four-coordinate carbon (state leaked from the custom one)")
    Q, t = G.generic_rotation(seed), G.translation(seed)
    for pi in itertools.permutations(range(6)):
        for label, R, tt, refl in (("generic", Q, t, False), ("refl", G.REFLECTIONS[0] @ Q, t, True)):
            e1 = [els[j] for j in pi]
            x1 = (xyz @ R.T + tt)[list(pi)]
            out["evals"] += 1
            out["distinct"] += 1
            oc["custom-cutoff"] = oc.get("custom-cutoff", 0) + 1
            try:
                g1 = StereoMolGraph.from_geometry(Geometry(e1, x1), sf())
                gm = MolGraph.from_geometry(Geometry(e1, x1), sf())
            except Exception as e:
                V("raised:" + type(e).__name__, f"from_geometry raised {e!r}", inp=f"{pi}|{label}")
                continue
            if zero and any(set(b) & {pi.index(4), pi.index(5)} for b in g1.bonds):
                V("override-ignored-perm", f"a C-Cl bond appears for atom order {pi} although the pair's cut-off is 0.0", inp=f"{pi}|{label}")
            if {frozenset(b) for b in gm.bonds} != {frozenset(b) for b in g1.bonds}:
                V("classes-disagree", f"MolGraph and StereoMolGraph.from_geometry give different bonds for atom order {pi}", inp=f"{pi}|{label}")
            m1 = U.from_real(g1).relabel({j: pi[j] for j in range(6)})
            for clause, det in compare(m0, m1, refl):
                V("perm:" + clause, f"perception with the custom cut-off changed under atom permutation {pi} ({label}): {clause} {det}",
                  inp=f"{pi}|{label}")
    return out
