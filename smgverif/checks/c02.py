"""C02 - equality never lies: equal graphs are structurally identical (DESIGN.md 5/C02)."""
from __future__ import annotations

import itertools
from functools import lru_cache

from ..model import refgraph as RG
from ..model import refiso as RI
from ..universe import graphs as U
from . import eqcommon as E

PROP = "C02"
RULE = ("all ordered pairs (a,b) of same-class graphs with fully specified parities inside bounded universes: all labelled "
        "MolGraphs n<=3 x all, labelled n=4 x class representatives (thorough: all 1.2M ordered labelled pairs n<=4), "
        "representatives x representatives for MolGraph n<=4 {C,H,O} (n=5 thorough), reaction graphs n<=3 with every role "
        "assignment, stereo stars / two-unit / stereo reaction universes; single-feature mutations of symmetric graphs up to "
        "14 atoms; two-unit graphs against copies written with hash-colliding identifiers; cross-class pairs; all 26 pairs of non-isomorphic graphs with <=7 vertices that 1-WL refinement cannot separate "
        "(from the Graph Atlas, re-validated at run time) x every renumbering (7 vertices: every 7th in quick) x {MolGraph, "
        "StereoMolGraph, explicit hydrogens}; class sequences (descriptors of different classes over identical atom tuples compared "
        "one after the other in one process, all 24 orderings, star and spiro bis-chelate skeletons).  Oracle: a==b must imply that a brute-force search finds a bijection preserving elements, "
        "bonds, bond roles, descriptors up to symmetry and stereo changes.  distinct = ordered pairs with equal atom and bond "
        "count (the non-trivial ones)")
ASSUMPTIONS = ["fully specified parities only (as the statement restricts)",
               "representatives x representatives covers every pair of isomorphism classes but one labelling of each; all "
               "labellings are covered up to n=4 (MolGraph) / n=3 (reaction graphs, representatives only)"]
BUDGET = {"quick": 600, "thorough": 1800}
MG, SMG, CRG, SCRG = RG.MG, RG.SMG, RG.CRG, RG.SCRG


@lru_cache(None)
def pools(tier):
    """name -> (rows, cols) lists of specs; every ordered pair rows x cols is compared"""
    P = {}
    lab3 = [g for n in range(0, 4) for g in U.mg_labelled(n, ("C", "H"))]
    lab4 = U.mg_labelled(4, ("C", "H"))
    reps4 = [g for g in U.MG_reps(4, ("C", "H", "O"))]
    reps4ch = [g for g in reps4 if all(d["atom_type"] in (1, 6) for d in g.atoms.values())]
    P["MG-lab3xlab3"] = (lab3, lab3)
    if tier == "quick":
        P["MG-lab4xreps"] = (lab4, [g for g in reps4ch if len(g.atoms) == 4])
    else:
        P["MG-lab4xlab4"] = (lab4, lab4)
        P["MG-lab4xlab3"] = (lab4, lab3)
        m5 = list(U.MG5_reps())
        P["MG5"] = (m5, m5)
    P["MG-reps"] = (reps4, reps4)
    crg = list(U.CRG_reps(3))
    P["CRG-reps"] = (crg, crg)
    crg_lab = U.crg_labelled(3, ("C",))
    P["CRG-lab3C"] = (crg_lab, crg_lab) if tier == "thorough" else (crg_lab, [g for g in crg if len(g.atoms) == 3])
    st = [g for g in U.stars(5 if tier == "quick" else 6) if E.fully_specified(g)]
    P["stars"] = (st, st)
    if tier == "quick":
        # (thorough has all six-coordinate stars in "stars"; quick: the octahedral ones, every stereoisomer of every ligand pattern)
        oc = [g for g in U.stars(6) if len(g.atoms) == 7 and E.fully_specified(g)]
        P["stars-octahedral"] = (oc, oc)
    tu = [g for g in U.two_unit() if E.fully_specified(g)]
    P["two-unit"] = (tu, tu)
    sc = [g for g in U.scrg_universe("quick" if tier == "quick" else "thorough") if E.fully_specified(g)]
    P["SCRG"] = (sc, sc)
    smg_plain = [U.to_kind(g, SMG) for g in reps4 if len(g.atoms) <= 3]
    P["SMG-plain+stars4"] = (smg_plain + [g for g in st if len(g.atoms) <= 5], smg_plain + [g for g in st if len(g.atoms) <= 5])
    mut = mutations()
    P["symmetric-mutations"] = (mut, mut)
    # lone-pair descriptors with the placeholder at every position, descriptor-less stars
    ex = [g for g in U.stars_extra() if E.fully_specified(g)]
    ex4 = ex + [g for g in st if len(g.atoms) == 4]
    P["stars-placeholder-positions"] = (ex4, ex4)
    # 1-WL-equivalent role patterns on symmetric skeletons (both reaction classes)
    sr = [g for _, g in U.symmetric_reactions()]
    P["symmetric-reactions"] = (sr, sr)
    srs = [U.to_kind(g, SCRG) for g in sr]
    P["symmetric-reactions-SCRG"] = (srs[::3], srs)
    # several stereo changes of one kind meeting at one atom: double ring closure to a dioxaspiropentane - the spiro carbon's
    # formed descriptor (R or S; its neighbours are two equivalent pairs, so only the descriptor tells them apart) and the formed
    # descriptors of the two ring oxygens, which have the spiro carbon as a ligand; registered in either order
    sa = [(0, "C"), (1, "O"), (2, "O"), (3, "C"), (4, "C"), (5, "H"), (6, "H"), (7, "H"), (8, "H")]
    sb = [(0, 1, "FORMED"), (0, 2, "FORMED"), (0, 3), (0, 4), (1, 3), (2, 4), (3, 5), (3, 6), (4, 7), (4, 8)]
    sp = []
    for par in (1, -1):
        for order in (0, 1):
            ch = [(0, {"FORMED": ("Tetrahedral", (0, 1, 3, 2, 4), par)}), (1, {"FORMED": ("Tetrahedral", (1, 0, 3, None, None), 1)}),
                  (2, {"FORMED": ("Tetrahedral", (2, 0, 4, None, None), 1)})]
            if order:
                ch = ch[1:] + ch[:1]
            sp.append(U.mk(SCRG, sa, sb, achg=dict(ch)))
            sp.append(U.mk(SCRG, sa, sb, achg=dict(ch[:1] if not order else ch[-1:])))
    P["spiro-stereo-changes"] = (sp, sp + [g.copy().relabel({a: 20 - a for a in g.atoms}) for g in sp])
    # second graph written with identifiers whose Python hashes coincide (-1 / -2, k / k + 2^61 - 1), placed on every pair of atoms
    # two positions apart in the identifier order (ring CH2 groups, geminal ligands, the two centres)
    Pm = 2 ** 61 - 1
    C = [-1, 5 + Pm, -2, 5, Pm, 0, 7, 7 + Pm, 11, 13, 17, 19, 23, 29]
    col = []
    for g in tu:
        ids = list(g.atoms)
        for r in range(len(ids)):
            col.append(g.copy().relabel({ids[(i + r) % len(ids)]: C[i] for i in range(len(ids))}))
    P["two-unit-colliding-ids"] = (tu, col)
    return P


def mutations():
    """each symmetric graph, a relabelled copy, and every single-feature mutation (one element, one bond removed,
    one bond added, one parity flipped, one descriptor replaced by another isomer)"""
    out = []
    for name, g in U.symmetric():
        ids = list(g.atoms)
        out.append(g)
        out.append(g.copy().relabel(dict(zip(ids, ids[1:] + ids[:1]))))
        seen_el = set()
        for a in ids:
            k = (g.atoms[a]["atom_type"], len(g.nbrs(a)))
            if k in seen_el:
                continue
            seen_el.add(k)
            h = g.copy()
            h.atoms[a]["atom_type"] = 7
            out.append(h)
        b0 = next(iter(g.bonds))
        h = g.copy()
        del h.bonds[b0]
        h.astereo = {}
        h.bstereo = {}
        out.append(h)
        h0 = g.copy()
        h0.astereo = {}
        h0.bstereo = {}
        out.append(h0)
        for x, y in itertools.combinations(ids, 2):
            if frozenset((x, y)) not in g.bonds:
                h = h0.copy()
                h.bonds[frozenset((x, y))] = {}
                out.append(h)
                break
        for c, d in g.astereo.items():
            if d[2] in (1, -1):
                h = g.copy()
                h.astereo[c] = (d[0], d[1], -d[2])
                out.append(h)
            t = d[1]
            if len(t) >= 4:
                h = g.copy()
                h.astereo[c] = (d[0], (t[0], t[2], t[1]) + tuple(t[3:]), d[2])
                out.append(h)
        for c, d in list(g.bstereo.items())[:1]:
            t = d[1]
            h = g.copy()
            h.bstereo[c] = (d[0], (t[1], t[0]) + tuple(t[2:]), d[2])
            out.append(h)
    return out


def items(tier, seed):
    P = pools(tier)
    out = []
    for name, (rows, cols) in P.items():
        per = max(1, 6000 // max(1, len(cols)))
        for lo in range(0, len(rows), per):
            out.append({"pool": name, "lo": lo, "hi": min(len(rows), lo + per), "tier": tier})
    out.append({"cross": True, "tier": tier})
    for i in range(len(wl_classes())):
        out.append({"wl": i, "tier": tier})
    for k in range(4):
        out.append({"classseq": k, "tier": tier})
    for k in range(8):
        out.append({"derived": True, "k": k, "tier": tier})
    return out


_REAL = {}


def _real(tier, name, side):
    k = (tier, name, side)
    if k not in _REAL:
        _REAL[k] = [U.build(g) for g in pools(tier)[name][side]]
    return _REAL[k]


def run_item(item):
    tier = item["tier"]
    out = {"evals": 0, "distinct": 0, "outcomes": {}, "viol": [], "samples": []}
    oc = out["outcomes"]
    if item.get("cross"):
        return _cross(item, out)
    if "wl" in item:
        return _wl(item, out)
    if "classseq" in item:
        return _classseq(item, out)
    if item.get("derived"):
        return _derived(item, out)
    rows, cols = pools(tier)[item["pool"]]
    rc = _real(tier, item["pool"], 1)
    for i in range(item["lo"], item["hi"]):
        a = rows[i]
        ra = U.build(a)
        na, ba = len(a.atoms), len(a.bonds)
        for j, b in enumerate(cols):
            if a.kind != b.kind:
                continue
            try:
                r = ra == rc[j]
            except Exception as e:
                oc["raised:" + type(e).__name__] = oc.get("raised:" + type(e).__name__, 0) + 1
                out["evals"] += 1
                continue
            out["evals"] += 1
            if na == len(b.atoms) and ba == len(b.bonds):
                out["distinct"] += 1
            if r is True:
                ok = RI.isomorphic(a, b, roles=True, stereo=True, changes=True)
                oc["equal-confirmed" if ok else "equal-refuted"] = oc.get("equal-confirmed" if ok else "equal-refuted", 0) + 1
                if not ok:
                    out["viol"].append({
                        "sig": f"C02/{E.SHORT[a.kind]}/{item['pool']}/false-equal",
                        "input": f"{U.key(a)}|{U.key(b)}",
                        "what": f"{U.describe(a)} == {U.describe(b)} is True but no structure-preserving bijection exists",
                        "item": item, "detail": None})
            else:
                oc["unequal"] = oc.get("unequal", 0) + 1
    if item["lo"] == 0:
        out["samples"].append({"pool": item["pool"], "rows": len(rows), "cols": len(cols),
                               "first_pair": [U.describe(rows[0]), U.describe(cols[-1])]})
    return out


def _classseq(item, out):
    """descriptors of DIFFERENT classes over IDENTICAL atom tuples compared one after the other in one process (anything the
    library memoises per tuple must not leak between classes): five-tuples Tetrahedral(+1/-1) / SquarePlanar on a star with four
    distinct ligands and on a spiro bis-chelate M(N~O)2 (constitutionally equivalent donors: only the descriptor comparison can
    tell the isomers apart), six-tuples TrigonalBipyramidal / PlanarBond / AtropBond.  Each == is checked against the oracle."""
    oc = out["outcomes"]
    k = item["classseq"]
    star_atoms = [(0, "Ni"), (1, "H"), (2, "F"), (3, "Cl"), (4, "Br")]
    star_bonds = [(0, 1), (0, 2), (0, 3), (0, 4)]
    spiro_atoms = [(0, "Ni"), (1, "N"), (2, "O"), (3, "N"), (4, "O"), (5, "C"), (6, "C")]
    spiro_bonds = [(0, 1), (0, 2), (0, 3), (0, 4), (1, 5), (5, 2), (3, 6), (6, 4)]
    seq5 = [("SquarePlanar", 0), ("Tetrahedral", 1), ("Tetrahedral", -1), ("SquarePlanar", 0), ("Tetrahedral", 1)]
    if k % 2:
        seq5 = [("Tetrahedral", 1), ("SquarePlanar", 0), ("Tetrahedral", -1), ("Tetrahedral", 1), ("SquarePlanar", 0)]
    atoms, bonds = (star_atoms, star_bonds) if k < 2 else (spiro_atoms, spiro_bonds)

    def cmp(A, B, tag):
        try:
            r = U.build(A) == U.build(B)
        except Exception as e:
            r = "EXC:" + type(e).__name__
        out["evals"] += 1
        out["distinct"] += 1
        oc["class-sequence"] = oc.get("class-sequence", 0) + 1
        if r is True and not RI.isomorphic(A, B, roles=True, stereo=True, changes=True):
            out["viol"].append({"sig": f"C02/SMG/class-sequence/{tag}/false-equal", "input": f"{U.key(A)}|{U.key(B)}",
                                "what": f"{U.describe(A)} == {U.describe(B)} is True but no structure-preserving bijection exists "
                                        f"(descriptors of other classes over the same atom tuples were compared before in this process)",
                                "item": item, "detail": None})

    for T in itertools.permutations((1, 2, 3, 4)):
        for cls, par in seq5:
            for lp in ((1, -1) if cls == "Tetrahedral" else (0,)):
                A = U.mk(SMG, atoms, bonds, astereo=[(cls, (0, 1, 2, 3, 4), lp)])
                B = U.mk(SMG, atoms, bonds, astereo=[(cls, (0, *T), par)])
                cmp(A, B, cls)
    # six-tuples: the same tuple is a trigonal-bipyramidal centre 0 in one graph and a bond descriptor of bond 2-3 in another
    tb_atoms = [(0, "P"), (1, "H"), (2, "F"), (3, "Cl"), (4, "Br"), (5, "I")]
    tb_bonds = [(0, i) for i in range(1, 6)]
    eth_atoms = [(0, "H"), (1, "F"), (2, "C"), (3, "C"), (4, "H"), (5, "Cl")]
    eth_bonds = [(2, 3), (2, 0), (2, 1), (3, 4), (3, 5)]
    seq6 = [("TrigonalBipyramidal", 1), ("PlanarBond", 0), ("AtropBond", 1), ("TrigonalBipyramidal", -1), ("AtropBond", -1),
            ("PlanarBond", 0), ("TrigonalBipyramidal", 1)]
    if k % 2:
        seq6 = seq6[1:] + seq6[:1]
    for rep in range(2):
        for T in ((0, 1, 2, 3, 4, 5), (0, 1, 2, 3, 5, 4), (1, 0, 2, 3, 4, 5), (1, 0, 2, 3, 5, 4)):
            for cls, par in seq6:
                if cls == "TrigonalBipyramidal":
                    if T[0] != 0:
                        continue
                    for lp in (1, -1):
                        cmp(U.mk(SMG, tb_atoms, tb_bonds, astereo=[(cls, (0, 1, 2, 3, 4, 5), lp)]),
                            U.mk(SMG, tb_atoms, tb_bonds, astereo=[(cls, T, par)]), cls)
                else:
                    for lp in ((1, -1) if cls == "AtropBond" else (0,)):
                        cmp(U.mk(SMG, eth_atoms, eth_bonds, bstereo=[(cls, (0, 1, 2, 3, 4, 5), lp)]),
                            U.mk(SMG, eth_atoms, eth_bonds, bstereo=[(cls, T, par)]), cls)
    return out


@lru_cache(None)
def wl_classes():
    import json
    import os

    return json.load(open(os.path.join(os.path.dirname(os.path.dirname(__file__)), "data", "wl_pairs.json")))


def _wl_equivalent(A, B):
    """1-dimensional Weisfeiler-Lehman refinement on the disjoint union (harness-side, to validate the data file): True if the
    stable colouring gives both graphs the same colour histogram"""
    nodes = [(0, a) for a in A.atoms] + [(1, b) for b in B.atoms]
    G = {0: A, 1: B}
    col = {v: (G[v[0]].atoms[v[1]]["atom_type"], len(G[v[0]].nbrs(v[1]))) for v in nodes}
    for _ in range(len(nodes) + 1):
        new = {v: (col[v], tuple(sorted(col[(v[0], x)] for x in G[v[0]].nbrs(v[1])))) for v in nodes}
        ids = {k: i for i, k in enumerate(sorted(set(new.values())))}
        col = {v: ids[new[v]] for v in nodes}
    return sorted(col[v] for v in nodes if v[0] == 0) == sorted(col[v] for v in nodes if v[0] == 1)


def _wl(item, out):
    """pairs of non-isomorphic graphs (<= 7 vertices, complete list from the Graph Atlas) that colour refinement cannot separate:
    the isomorphism search alone has to tell them apart, under every renumbering of the second graph (n = 7: every 7th in the
    quick tier), as MolGraph, as StereoMolGraph, and with every carbon saturated by explicit hydrogens"""
    oc = out["outcomes"]
    cl = wl_classes()[item["wl"]]
    n = cl["n"]

    def spec(edges, kind, hyd):
        atoms = [(i, "C") for i in range(n)]
        bonds = [tuple(e) for e in edges]
        if hyd:
            deg = {i: sum(i in e for e in edges) for i in range(n)}
            nxt = n
            for i in range(n):
                for _ in range(max(0, 4 - deg[i])):
                    atoms.append((nxt, "H"))
                    bonds.append((i, nxt))
                    nxt += 1
        return U.mk(kind, atoms, bonds)

    perms = list(itertools.permutations(range(n)))
    if n >= 7 and item["tier"] == "quick":
        perms = perms[::7]
    for ea, eb in itertools.permutations(cl["graphs"], 2):
        for kind, hyd in ((MG, False), (SMG, False), (MG, True)):
            A, B = spec(ea, kind, hyd), spec(eb, kind, hyd)
            if not _wl_equivalent(A, B) or RI.isomorphic(A, B):
                raise RuntimeError("data file wl_pairs.json: class %d is not a WL-equivalent non-isomorphic pair" % item["wl"])
            ra = U.build(A)
            extra = [a for a in B.atoms if a >= n]
            for p in (perms if not hyd else perms[::5]):
                mp = dict(zip(range(n), p))
                # hydrogens keep their places relative to each other but are shifted so that identifiers interleave
                mp.update({a: a + (p[0] % 3) for a in extra})
                if len(set(mp.values())) != len(mp):
                    mp = dict(zip(range(n), p))
                Bp = B.copy().relabel(mp)
                try:
                    r = ra == U.build(Bp)
                except Exception as e:
                    r = "EXC:" + type(e).__name__
                out["evals"] += 1
                out["distinct"] += 1
                oc["wl-equivalent-pairs"] = oc.get("wl-equivalent-pairs", 0) + 1
                if r is True:
                    out["viol"].append({"sig": f"C02/{E.SHORT[kind]}/wl-equivalent{'-explicitH' if hyd else ''}/false-equal",
                                        "input": f"{item['wl']}|{ea}|{eb}|{p}",
                                        "what": f"{U.describe(A)} == {U.describe(Bp)} is True although the graphs are not isomorphic "
                                                f"(they are 1-WL equivalent)", "item": item, "detail": None})
    out["samples"].append({"wl_class": item["wl"], "n": n, "graphs": cl["graphs"]})
    return out


def _cross(item, out):
    """graphs of different classes never compare equal (both directions, every pair of the four classes)"""
    oc = out["outcomes"]
    specs = [g for g in U.MG_reps(4, ("C", "H", "O")) if len(g.atoms) <= 3] + list(U.CRG_reps(3))[::5] + \
        [g for g in U.stars(4) if E.fully_specified(g)][::3] + list(U.scrg_universe("quick"))[::9]
    kinds = (MG, SMG, CRG, SCRG)
    for m in specs:
        built = {}
        for k in kinds:
            # the same labelled content expressed in every class that can hold it
            if k in (MG, CRG) and (m.astereo or m.bstereo or m.achg or m.bchg):
                continue
            if k in (MG, SMG) and any("reaction" in d for d in m.bonds.values()):
                continue
            if k == SMG and (m.achg or m.bchg):
                continue
            built[k] = U.build(U.to_kind(m, k))
        for k1, k2 in itertools.permutations(built, 2):
            try:
                r = built[k1] == built[k2]
            except Exception as e:
                r = "EXC:" + type(e).__name__
            out["evals"] += 1
            out["distinct"] += 1
            oc["cross-" + str(r)] = oc.get("cross-" + str(r), 0) + 1
            if r is True:
                out["viol"].append({"sig": f"C02/cross-class/{E.SHORT[k1]}=={E.SHORT[k2]}/equal",
                                    "input": U.key(m),
                                    "what": f"{k1} == {k2} built from the same content {U.describe(m)} is True",
                                    "item": item, "detail": None})
    return out


def _derived(item, out):
    """graphs that the library derived itself (composition of overlapping pieces in both orders, subgraphs, reactant / product
    of reaction graphs, copy-constructed and edited copies) compared with every universe graph of the same size: whenever ==
    says True, the PUBLIC content of the derived object (atoms, bonds, roles, descriptors) must be isomorphic to the other graph"""
    oc = out["outcomes"]
    reps = [g for g in U.MG_reps(4, ("C", "H", "O")) if 2 <= len(g.atoms) <= 4]
    crg = [g for g in U.CRG_reps(3) if len(g.atoms) == 3]
    base = (reps + crg)[item["k"]:: 8]
    for m in base:
        ids = list(m.atoms)
        n = len(ids)
        cols = [g for g in (reps if m.kind == MG else crg) if len(g.atoms) == n]
        rcols = [U.build(g) for g in cols]
        g = U.build(m)
        derived = []
        for S1, S2 in ((ids[:-1], ids[1:]), (ids[1:], ids[:-1]), (ids, ids[:1]), (ids[:1], ids), (ids[: n // 2 + 1], ids[n // 2:])):
            for a, b in ((S1, S2), (S2, S1)):
                derived.append((f"compose({a},{b})", lambda a=a, b=b: type(g).compose([g.subgraph(a), g.subgraph(b)])))
        if m.kind == CRG:
            derived.append(("compose(reactant,product)", lambda: U.real_cls(MG).compose([g.reactant(), g.product()])))
            derived.append(("compose(product,reactant)", lambda: U.real_cls(MG).compose([g.product(), g.reactant()])))

        def edited():
            h = type(g)(g)
            if m.bonds:
                h.remove_bond(*next(iter(m.bonds)))
            return h

        derived.append(("construct+remove_bond", edited))
        for name, fn in derived:
            try:
                h = fn()
            except Exception:
                oc["derivation-raised"] = oc.get("derivation-raised", 0) + 1
                continue
            mh = U.from_real(h)
            pool = cols if mh.kind == m.kind else [x for x in reps if len(x.atoms) == len(mh.atoms)]
            rpool = rcols if mh.kind == m.kind else [U.build(x) for x in pool]
            elh = sorted(d["atom_type"] for d in mh.atoms.values())
            for x, rx in zip(pool, rpool):
                # candidates that differ from the derived graph in at most one bond and have the same elements (everything
                # else is covered by the all-pairs pools above)
                if abs(len(x.bonds) - len(mh.bonds)) > 1 or sorted(d["atom_type"] for d in x.atoms.values()) != elh:
                    continue
                try:
                    r1, r2 = (h == rx), (rx == h)
                except Exception:
                    oc["raised"] = oc.get("raised", 0) + 1
                    continue
                out["evals"] += 2
                out["distinct"] += 1
                for r in (r1, r2):
                    if r is True:
                        ok = RI.isomorphic(mh, x, roles=True, stereo=True, changes=True)
                        oc["derived-equal-" + ("confirmed" if ok else "refuted")] = oc.get("derived-equal-" + ("confirmed" if ok else "refuted"), 0) + 1
                        if not ok:
                            out["viol"].append({"sig": f"C02/{E.SHORT[mh.kind]}/derived/{name.split('(')[0]}/false-equal",
                                                "input": f"{U.key(m)}|{name}|{U.key(x)}",
                                                "what": f"{name} of {U.describe(m)} has public content {U.describe(mh)} but compares equal to "
                                                        f"{U.describe(x)}", "item": item, "detail": None})
                            break
                    else:
                        oc["derived-unequal"] = oc.get("derived-unequal", 0) + 1
    return out
