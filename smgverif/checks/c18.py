"""C18 - bond-order perception never alters connectivity and completes octets (DESIGN.md 5/C18)."""
from __future__ import annotations

import itertools
import warnings

import numpy as np

from ..model.elements import Z
from ..universe import mols as M

PROP = "C18"
RULE = ("structural part: every symmetric 0/1 matrix on n<=4 atoms x every element list over {H,C,N,O,S,P,Cl} (n=4 quick: {H,C,N,O}): "
        "the result is symmetric, integer, >=1 exactly on bonded pairs and 0 elsewhere, no exception.  Chemical part: every connected, "
        "neutral, closed-shell multigraph with bond orders 1-3 on <=3 heavy atoms (thorough <=4) from C,N,O,S(II/VI),P(III/V),F,Cl,Br,I "
        "in standard valences with hydrogens filled in, every C4-C5 (thorough C6) hydrocarbon skeleton (cumulated / conjugated / cyclic), "
        "plus the listed aromatic / cumulated / cross-conjugated bis-cumulene / hypervalent systems (M.listed()), each in all atom "
        "orders (<=5 atoms quick, <=6 thorough) or shifts + reversal + transpositions: every atom gets a standard valence, all charges "
        "and unpaired electrons are zero, support equals connectivity; the public path g.to_rdmol(generate_bond_orders=True) on the "
        "listed molecules, hydrocarbons and a stride of the enumeration (MolGraph / StereoMolGraph, three identifier schemes, both "
        "insertion orders, and cut out of a larger graph with subgraph()): standard valences, no charges, no radicals, same bonds on the RDKit molecule.  distinct = (molecule, atom order) calls")
ASSUMPTIONS = ["standard valences: H1 C4 N3 O2 F/Cl/Br/I 1 S{2,6} P{3,5}; the Kekule structure itself is not compared",
               "'all molecules' is cut at 3 (quick) / 4 (thorough) heavy atoms plus the list"]
BUDGET = {"quick": 600, "thorough": 1800}


def items(tier, seed):
    out = []
    for n in (1, 2, 3, 4):
        npairs = n * (n - 1) // 2
        for mask in range(1 << npairs):
            out.append({"part": "structural", "n": n, "mask": mask, "tier": tier})
    mols = M.enumerated(3 if tier == "quick" else 4)
    for lo in range(0, len(mols), 40):
        out.append({"part": "chem", "lo": lo, "hi": min(len(mols), lo + 40), "tier": tier})
    hc = M.hydrocarbons(5 if tier == "quick" else 6)
    for lo in range(0, len(hc), 10):
        out.append({"part": "hydrocarbons", "lo": lo, "hi": min(len(hc), lo + 10), "tier": tier})
    # process history: chemically meaningless inputs (over-coordinated H / C / halogen first) followed, in the SAME process,
    # by ordinary molecules - module-level tables and caches must not be polluted by earlier calls
    for k in range(6):
        out.append({"part": "history", "k": k, "tier": tier})
    names = sorted(M.listed())
    for nm in names:
        out.append({"part": "listed", "name": nm, "tier": tier})
    for k in range(8):
        out.append({"part": "to_rdmol", "k": k, "tier": tier})
    return out


def mol_id(m):
    """stable identifier of an enumerated molecule: formula + short hash of its canonical neighbourhood multiset"""
    import hashlib

    els, bo = m
    cnt = {}
    for e in els:
        cnt[e] = cnt.get(e, 0) + 1
    formula = "".join(f"{e}{cnt[e] if cnt[e] > 1 else ''}" for e in sorted(cnt))
    return formula + "-" + hashlib.sha1(repr(M._canon(els, bo)).encode()).hexdigest()[:8]


def call(els, A):
    from stereomolgraph.algorithms.bond_orders import connectivity2bond_orders

    with warnings.catch_warnings():
        warnings.simplefilter("ignore")
        return connectivity2bond_orders([Z[e] for e in els], A)


def orders(n, tier):
    ids = list(range(n))
    if n <= (5 if tier == "quick" else 6):
        return list(itertools.permutations(ids))
    fam = [tuple(ids[k:] + ids[:k]) for k in range(0, n, 1 if tier == "thorough" else max(1, n // 4))] + [tuple(reversed(ids))]
    pairs = list(itertools.combinations(ids, 2))
    if tier == "quick":
        pairs = pairs[:: max(1, len(pairs) // 8)]
    for i, j in pairs:
        p = ids[:]
        p[i], p[j] = p[j], p[i]
        fam.append(tuple(p))
    return list(dict.fromkeys(fam))


def structural_check(els, A, out, item, tag):
    def V(clause, what):
        out["viol"].append({"sig": f"C18/{tag}/{clause}", "input": f"{els}|{A.tolist()}",
                            "what": what + f" [{els} {A.tolist()}]", "item": item, "detail": None})
    try:
        BO, ch, un = call(els, A)
    except Exception as e:
        V("raised:" + type(e).__name__, f"connectivity2bond_orders raised {e!r}")
        return None
    BO = np.asarray(BO)
    if BO.shape != A.shape:
        V("shape", f"bond order matrix has shape {BO.shape}")
        return None
    if not np.array_equal(BO, BO.T):
        V("asymmetric", f"bond order matrix {BO.tolist()} is not symmetric")
    if not np.all(BO == np.round(BO)):
        V("non-integer", f"bond order matrix {BO.tolist()} is not integer")
    if not np.array_equal(BO >= 1, A == 1) or np.any(BO[A == 0] != 0):
        V("support", f"bond order matrix {BO.tolist()} does not have the support of the connectivity")
    return BO, ch, un


SCATTER = [17, 3, 250, 9, 1000, 42, 77, 5, 123, 64, 8, 31, 900, 12, 2, 555, 61, 7, 29, 404, 13, 88, 1, 36, 19, 321, 45, 6, 72, 99]


def _to_rdmol(item, out):
    """the public path g.to_rdmol(generate_bond_orders=True): the orders are written onto an RDKit molecule per graph bond, so the
    rows of the bond-order matrix have to be matched with identifiers and RDKit indices.  Listed molecules, C4 (thorough C5)
    hydrocarbons and the <=3 heavy atom enumeration (stride), as MolGraph and StereoMolGraph, identifiers 1..n, scattered and in
    reversed insertion order: every RDKit atom gets a standard valence, no charge, no radical; RDKit bonds = graph bonds"""
    import stereomolgraph as smg
    from rdkit import Chem

    tier, k = item["tier"], item["k"]
    oc = out["outcomes"]
    pool = [(nm, M.listed()[nm]) for nm in sorted(M.listed())]
    pool += [(mol_id(m), m) for m in M.hydrocarbons(4 if tier == "quick" else 5)]
    pool += [(mol_id(m), m) for m in M.enumerated(3)[:: 7 if tier == "quick" else 1]]
    for name, (els, bo) in pool[k::8]:
        n = len(els)
        if n > len(SCATTER):
            schemes = {"1..n": list(range(1, n + 1)), "shifted": [a + 1000 for a in range(n)]}
        else:
            schemes = {"1..n": list(range(1, n + 1)), "scattered": SCATTER[:n], "descending": list(range(n, 0, -1))}
        for sname, ids in schemes.items():
            for cls in (smg.MolGraph, smg.StereoMolGraph):
                for rev in (False, True, "subgraph"):
                    g = cls()
                    order = list(range(n))[::-1] if rev is True else list(range(n))
                    for i in order:
                        g.add_atom(ids[i], els[i])
                    for (i, j) in (sorted(bo, reverse=True) if rev is True else sorted(bo)):
                        g.add_bond(ids[i], ids[j])
                    if rev == "subgraph":
                        # the exported graph is cut out of a larger one (a water molecule next to it), atoms named heavy-first in
                        # descending identifier order
                        w = max(ids) + 10
                        g.add_atom(w, "O")
                        g.add_atom(w + 1, "H")
                        g.add_atom(w + 2, "H")
                        g.add_bond(w, w + 1)
                        g.add_bond(w, w + 2)
                        pick = sorted(ids, key=lambda a: (els[ids.index(a)] == "H", -a))
                        g = g.subgraph(pick)
                    out["evals"] += 1
                    out["distinct"] += 1
                    oc["to_rdmol"] = oc.get("to_rdmol", 0) + 1

                    def V(clause, what):
                        out["viol"].append({"sig": f"C18/to_rdmol/{clause}", "input": f"{name}|{sname}|{cls.__name__}|{rev}",
                                            "what": what + f" [{name}: {els} bonds {sorted(bo.items())}, identifiers {sname}"
                                                           f"{', reversed insertion' if rev is True else (', cut out with subgraph()' if rev else '')}, {cls.__name__}]",
                                            "item": item, "detail": None})
                    try:
                        with warnings.catch_warnings():
                            warnings.simplefilter("ignore")
                            mol = g.to_rdmol(generate_bond_orders=True)
                    except Exception as e:
                        V("raised:" + type(e).__name__, f"to_rdmol(generate_bond_orders=True) raised {e!r}")
                        continue
                    atoms = list(g.atoms)
                    if mol.GetNumAtoms() != n or [a.GetSymbol() for a in mol.GetAtoms()] != [els[ids.index(a)] for a in atoms]:
                        V("atoms", "RDKit atoms differ from the graph's atoms (in graph order)")
                        continue
                    rb = {frozenset((atoms[b.GetBeginAtomIdx()], atoms[b.GetEndAtomIdx()])): b.GetBondTypeAsDouble() for b in mol.GetBonds()}
                    if set(rb) != {frozenset(b) for b in g.bonds}:
                        V("bonds", "RDKit bonds differ from the graph's bonds")
                        continue
                    val = {a: 0.0 for a in atoms}
                    for b, o in rb.items():
                        for a in b:
                            val[a] += o
                    bad = [(a, els[ids.index(a)], val[a]) for a in atoms if val[a] not in M.STD_VALENCES[els[ids.index(a)]]]
                    if bad:
                        V("valence", f"atoms without a standard valence on the RDKit molecule: {bad[:4]}")
                    if any(a.GetFormalCharge() for a in mol.GetAtoms()):
                        V("charges", "formal charges on the RDKit molecule")
                    if any(a.GetNumRadicalElectrons() for a in mol.GetAtoms()):
                        V("radicals", "radical electrons on the RDKit molecule")
    return out


def run_item(item):
    out = {"evals": 0, "distinct": 0, "outcomes": {}, "viol": [], "samples": []}
    oc = out["outcomes"]
    tier = item["tier"]
    if item["part"] == "to_rdmol":
        return _to_rdmol(item, out)
    if item["part"] == "structural":
        n = item["n"]
        pairs = list(itertools.combinations(range(n), 2))
        A = np.zeros((n, n), dtype=int)
        for i, p in enumerate(pairs):
            if item["mask"] >> i & 1:
                A[p] = A[p[::-1]] = 1
        alphabet = ("H", "C", "N", "O", "S", "P", "Cl") if (n <= 3 or tier == "thorough") else ("H", "C", "N", "O")
        for els in itertools.product(alphabet, repeat=n):
            out["evals"] += 1
            out["distinct"] += 1
            structural_check(list(els), A, out, item, "structural")
        oc["structural-inputs"] = out["evals"]
        if item["mask"] == (1 << len(pairs)) - 1:
            out["samples"].append({"part": "structural", "n": n, "matrix": A.tolist(), "alphabet": alphabet})
        return out
    if item["part"] == "history":
        k = item["k"]
        weird = [(["H", "C", "C", "C"], [(0, 1), (0, 2), (0, 3)]), (["C"] + ["H"] * 6, [(0, i) for i in range(1, 7)]),
                 (["F", "C", "C"], [(0, 1), (0, 2)]), (["Cl", "H", "H", "H"], [(0, 1), (0, 2), (0, 3)]),
                 (["O", "H", "H", "H", "H"], [(0, i) for i in range(1, 5)]), (["N"] + ["H"] * 5, [(0, i) for i in range(1, 6)])]
        els, bonds = weird[k]
        A = np.zeros((len(els), len(els)), dtype=int)
        for i, j in bonds:
            A[i, j] = A[j, i] = 1
        structural_check(els, A, out, item, "history-structural")
        out["evals"] += 1
        pool = M.enumerated(3)
        sel = [m for m in pool if any(e in ("S", "P", "N", "O") for e in m[0])]
        named = [(mol_id(m), m) for m in sel[k:: 6][:120]] + [(nm, M.listed()[nm]) for nm in sorted(M.listed())[k:: 6]]
    elif item["part"] == "chem":
        mols = M.enumerated(3 if tier == "quick" else 4)[item["lo"]:item["hi"]]
        named = [(mol_id(m), m) for i, m in enumerate(mols)]
    elif item["part"] == "hydrocarbons":
        mols = M.hydrocarbons(5 if tier == "quick" else 6)[item["lo"]:item["hi"]]
        named = [(mol_id(m), m) for m in mols]
    else:
        named = [(item["name"], M.listed()[item["name"]])]
    for name, (els, bo) in named:
        n = len(els)
        A0 = np.zeros((n, n), dtype=int)
        for (i, j), o in bo.items():
            A0[i, j] = A0[j, i] = 1
        formula = "".join(sorted(els))
        for pi in orders(n, tier):
            e = [els[k] for k in pi]
            A = A0[np.ix_(list(pi), list(pi))]
            out["evals"] += 1
            out["distinct"] += 1
            r = structural_check(e, A, out, item, "chem")
            if r is None:
                continue
            BO, ch, un = r
            sums = BO.sum(axis=1)
            bad = [(k, e[k], int(sums[k])) for k in range(n) if int(sums[k]) not in M.STD_VALENCES[e[k]]]

            def V(clause, what):
                out["viol"].append({"sig": f"C18/chem/{clause}", "input": name,
                                    "what": what + f" [{name}: {els} bonds {sorted(bo.items())} in atom order {pi}]",
                                    "item": item, "detail": {"BO": BO.tolist()}})
            if bad:
                V("valence:" + "+".join(sorted({b[1] for b in bad})), f"atoms without a standard valence: {bad}")
            if any(int(c) != 0 for c in ch):
                V("charges", f"non-zero charges {list(map(int, ch))}")
            if any(int(u) != 0 for u in un):
                V("radicals", f"unpaired electrons {list(map(int, un))}")
            oc["ok" if not bad else "bad"] = oc.get("ok" if not bad else "bad", 0) + 1
        if not out["samples"]:
            out["samples"].append({"molecule": name, "elements": els, "bond_orders": sorted(bo.items()), "atom_orders": len(orders(n, tier))})
    return out
