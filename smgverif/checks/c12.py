"""C12 - RDKit import depends on the molecule, not on its representation (DESIGN.md 5/C12)."""
from __future__ import annotations

import itertools

from ..universe import graphs as U
from ..universe import rdcases as R

PROP = "C12"
RULE = ("(a) single-centre complexes with pairwise distinct monoatomic ligands: every permutation label (2 tetrahedral, 3 square "
        "planar, 20 trigonal bipyramidal, 30 octahedral) x ALL atom renumberings of the molecule (Chem.RenumberAtoms over all n! "
        "orders, n<=7) x every SMILES re-spelling written by RDKit rooted at every atom (changes neighbour order and label) x the 16 "
        "converter option combinations: equal graphs and equal hashes inside one stereoisomer, pairwise unequal graphs across labels "
        "(class count 2/3/20/30); (b) organic molecules (fixed list with 0-4 stereocentres, E/Z bonds, rings, aromatics, lone-pair "
        "centres, explicit H): every stereoisomer from RDKit's enumeration x renumbering family x rooted re-spellings; different "
        "stereoisomers unequal; (c) import by atom-map number equals the index import renamed by the map.  distinct = imports compared")
ASSUMPTIONS = ["RDKit 2024.09.3 is the environment: RenumberAtoms, its SMILES writer/reader for @SP/@TB/@OH and EnumerateStereoisomers "
               "are trusted", "molecules with unspecified stereogenic units are imported with stereo_complete=False only (with True the "
               "converter documents an arbitrary choice)"]
BUDGET = {"quick": 600, "thorough": 3600}
OPTS = list(itertools.product((False, True), repeat=4))  # (use_atom_map_number, stereo_complete, lone_pair_stereo, resonance)


def converter(opt):
    from stereomolgraph.rdmol2graph import RDMol2StereoMolGraph

    return RDMol2StereoMolGraph(use_atom_map_number=opt[0], stereo_complete=opt[1], lone_pair_stereo=opt[2], resonance=opt[3])


def items(tier, seed):
    out = []
    for cls in ("TH", "SP", "TB", "OH"):
        for k in range(1, R.NLABELS[cls] + 1):
            out.append({"part": "complex", "cls": cls, "label": k, "tier": tier})
        out.append({"part": "labels", "cls": cls, "tier": tier})
    for i in range(len(R.organics()) + len(R.ions())):
        out.append({"part": "organic", "idx": i, "tier": tier})
    # tetrahedral and square-planar complexes over the same atom indices imported one after the other in one process
    out.append({"part": "sequence", "order": ["TH1", "SP1", "TH2", "SP2", "SP3", "TH1"], "tier": tier})
    out.append({"part": "sequence", "order": ["SP3", "TH2", "SP1", "TH1", "SP2"], "tier": tier})
    return out


def set_maps(m):
    for a in m.GetAtoms():
        a.SetAtomMapNum(a.GetIdx() + 1)
    return m


def _imp(conv, m):
    try:
        return conv(m)
    except Exception as e:
        return "EXC:" + type(e).__name__ + ":" + str(e)[:60]


def _same(g0, g1, need_hash=True):
    if isinstance(g0, str) or isinstance(g1, str):
        return f"import-raised({g1 if isinstance(g1, str) else g0})"
    try:
        if not (g0 == g1 and g1 == g0):
            return "unequal"
    except Exception as e:
        return "eq-raised:" + type(e).__name__
    if need_hash and hash(g0) != hash(g1):
        return "hash-differs"
    return None


def run_item(item):
    out = {"evals": 0, "distinct": 0, "outcomes": {}, "viol": [], "samples": []}
    if item["part"] == "complex":
        return _complex(item, out)
    if item["part"] == "labels":
        return _labels(item, out)
    if item["part"] == "sequence":
        for tag in item["order"]:
            sub = {"part": "complex", "cls": tag[:2], "label": int(tag[2:]), "tier": "quick-seq"}
            r = _complex(sub, {"evals": 0, "distinct": 0, "outcomes": {}, "viol": [], "samples": []})
            out["evals"] += r["evals"]
            out["distinct"] += r["distinct"]
            for v in r["viol"]:
                v["sig"] = v["sig"].replace("C12/complex/", "C12/complex-sequence/", 1)
                v["item"] = item
                out["viol"].append(v)
        out["outcomes"]["sequence-imports"] = out["evals"]
        return out
    return _organic(item, out)


def _complex(item, out):
    from rdkit import Chem

    oc = out["outcomes"]
    cls, k, tier = item["cls"], item["label"], item["tier"]
    smi = R.complex_smiles(cls, k)
    base = set_maps(R.parse(smi))
    opts = OPTS if (tier == "thorough" or (k <= 2 and cls != "OH")) else [OPTS[0], OPTS[5], OPTS[15], OPTS[8]]
    if tier == "quick-seq":
        opts = [OPTS[0], OPTS[4]]
    variants = [("base", None, base)]
    ren = list(R.renumberings(base, 7, tier))
    if tier == "quick" and len(ren) > 1000 and k > 1:
        ren = ren[k % 13::13]          # quick: all 5039 renumberings for label 1, a stride of them for the others
    variants += ren
    for lab, info, m2 in R.respellings(base):
        variants.append((lab, info, m2))
        if tier == "thorough":
            for v in itertools.islice(R.renumberings(m2, 7, tier), 0, 5040, 97):
                variants.append(("respell+renumber", (info, v[1]), v[2]))
    for opt in opts:
        conv = converter(opt)
        g0 = _imp(conv, base)
        for lab, info, m in variants[1:]:
            if opt[0] and any(a.GetAtomMapNum() == 0 for a in m.GetAtoms()):
                continue
            g1 = _imp(conv, m)
            out["evals"] += 1
            out["distinct"] += 1
            oc[lab] = oc.get(lab, 0) + 1
            bad = _same(g0, g1)
            if bad:
                out["viol"].append({"sig": f"C12/complex/{cls}/{lab}/{bad.split('(')[0]}", "input": f"{smi}|{info}|{opt}",
                                    "what": f"{smi} imported with options {opt}: {lab} variant {info} gives {bad}",
                                    "item": item, "detail": None})
            if opt[0] and not isinstance(g1, str) and not isinstance(g0, str):
                # with atom-map numbers as identifiers the graphs must be identical up to descriptor spelling, and equal
                if set(g1.atoms) != set(g0.atoms):
                    out["viol"].append({"sig": f"C12/complex/{cls}/{lab}/map-ids", "input": f"{smi}|{info}",
                                        "what": "atom-map import does not use the map numbers as identifiers", "item": item, "detail": None})
    # (c) map-number import == index import renamed by the map
    for opt in (OPTS[0], OPTS[7]):
        ci = converter(opt)
        cm = converter((True,) + tuple(opt[1:]))
        for lab, info, m in variants[:40]:
            if any(a.GetAtomMapNum() == 0 for a in m.GetAtoms()):
                continue
            gi, gm = _imp(ci, m), _imp(cm, m)
            out["evals"] += 1
            if isinstance(gi, str) or isinstance(gm, str):
                out["viol"].append({"sig": f"C12/complex/{cls}/map-vs-index/raised", "input": f"{smi}|{info}",
                                    "what": f"import raised: {gi if isinstance(gi, str) else gm}", "item": item, "detail": None})
                continue
            mp = {a.GetIdx(): a.GetAtomMapNum() for a in m.GetAtoms()}
            exp = U.from_real(gi).relabel(mp)
            from . import c06 as C6

            bad = C6.same_graph(U.from_real(gm), exp)
            if bad:
                out["viol"].append({"sig": f"C12/complex/{cls}/map-vs-index/" + "+".join(bad), "input": f"{smi}|{info}",
                                    "what": f"import by atom-map number differs from the renamed index import in {bad}", "item": item,
                                    "detail": None})
    if k == 1:
        out["samples"].append({"smiles": smi, "variants": len(variants), "options": len(opts)})
    return out


def _labels(item, out):
    """different permutation labels of a centre with pairwise distinct ligands are pairwise unequal"""
    oc = out["outcomes"]
    cls = item["cls"]
    for opt in (OPTS[0], OPTS[4], OPTS[15]):
        conv = converter(opt)
        gs = []
        for k in range(1, R.NLABELS[cls] + 1):
            m = set_maps(R.parse(R.complex_smiles(cls, k)))
            gs.append(_imp(conv, m))
        for (i, a), (j, b) in itertools.combinations(enumerate(gs, 1), 2):
            out["evals"] += 1
            out["distinct"] += 1
            if isinstance(a, str) or isinstance(b, str):
                continue
            if a == b or b == a:
                out["viol"].append({"sig": f"C12/labels/{cls}/equal", "input": f"{i}|{j}|{opt}",
                                    "what": f"{cls}{i} and {cls}{j} of {R.complex_smiles(cls, i)} import to equal graphs (options {opt})",
                                    "item": item, "detail": None})
        oc[f"label-pairs-{cls}"] = oc.get(f"label-pairs-{cls}", 0) + len(gs) * (len(gs) - 1) // 2
    return out


def _organic(item, out):
    from rdkit import Chem

    oc = out["outcomes"]
    tier = item["tier"]
    smi = (R.organics() + R.ions())[item["idx"]]
    isos = R.stereoisomers(smi)
    opts = [OPTS[0], OPTS[3], OPTS[4], OPTS[7]] if tier == "quick" else [o for o in OPTS if not o[0]]
    per_iso = {}
    for can, iso in isos.items():
        base = Chem.AddHs(iso)
        full = _fully_specified(base)
        variants = list(R.renumberings(base, 6, tier)) + list(R.respellings(base, None if tier == "thorough" else 8))
        for opt in opts:
            if opt[1] and not full:
                continue
            conv = converter(opt)
            g0 = _imp(conv, base)
            per_iso.setdefault(opt, []).append((can, g0))
            for lab, info, m in variants:
                g1 = _imp(conv, m)
                out["evals"] += 1
                out["distinct"] += 1
                oc[lab] = oc.get(lab, 0) + 1
                bad = _same(g0, g1, need_hash=opt[1] or full)
                if bad:
                    out["viol"].append({"sig": f"C12/organic/{lab}/{bad.split('(')[0]}", "input": f"{can}|{info}|{opt}",
                                        "what": f"{can} (from {smi}) imported with options {opt}: {lab} variant {info} gives {bad}",
                                        "item": item, "detail": None})
    # (c) import by atom-map number equals the index import renamed by the map (scattered, non-monotonic map numbers)
    from . import c06 as C6

    for can, iso in isos.items():
        base = Chem.AddHs(iso)
        n = base.GetNumAtoms()
        import math

        k = next(k for k in range(7, 7 + n + 2) if math.gcd(k, n) == 1)   # idx -> (idx*k+3) mod n is a permutation
        for a in base.GetAtoms():
            a.SetAtomMapNum(((a.GetIdx() * k + 3) % n) * 3 + 11)
        for opt in ((False, False, True, False), (False, True, True, True)):
            gi = _imp(converter(opt), base)
            gm = _imp(converter((True,) + opt[1:]), base)
            out["evals"] += 1
            if isinstance(gi, str) or isinstance(gm, str):
                out["viol"].append({"sig": "C12/organic/map-vs-index/raised", "input": f"{can}|{opt}",
                                    "what": f"import of {can} raised: {gi if isinstance(gi, str) else gm}", "item": item, "detail": None})
                continue
            mp = {a.GetIdx(): a.GetAtomMapNum() for a in base.GetAtoms()}
            bad = C6.same_graph(U.from_real(gm), U.from_real(gi).relabel(mp))
            oc["map-vs-index"] = oc.get("map-vs-index", 0) + 1
            if bad:
                out["viol"].append({"sig": "C12/organic/map-vs-index/" + "+".join(bad), "input": f"{can}|{opt}",
                                    "what": f"{can}: import by atom-map number differs from the renamed index import in {bad}",
                                    "item": item, "detail": None})
    # the class-level entry points StereoMolGraph.from_rdmol / MolGraph.from_rdmol give what the converter gives for the same
    # options, whatever was imported before in this process (options must not stick between calls)
    from stereomolgraph import MolGraph, StereoMolGraph
    from ..snapshot import norm, snap

    for can, iso in isos.items():
        base = Chem.AddHs(iso)
        for a in base.GetAtoms():
            a.SetAtomMapNum(a.GetIdx() + 1)
        for sc, um in ((False, False), (True, False), (False, True), (True, True), (False, False), (True, False)):
            try:
                got = StereoMolGraph.from_rdmol(base, use_atom_map_number=um, stereo_complete=sc)
                ref = converter((um, sc, True, True))(base)
                mg = MolGraph.from_rdmol(base, use_atom_map_number=um)
            except Exception as e:
                out["viol"].append({"sig": "C12/organic/classmethod/raised:" + type(e).__name__, "input": f"{can}|{sc}|{um}",
                                    "what": f"from_rdmol({can}, stereo_complete={sc}, use_atom_map_number={um}) raised {e!r}",
                                    "item": item, "detail": None})
                continue
            out["evals"] += 1
            oc["classmethod"] = oc.get("classmethod", 0) + 1
            a, b = norm(snap(got)), norm(snap(ref))
            if a != b:
                from ..snapshot import diff

                out["viol"].append({"sig": "C12/organic/classmethod/differs:" + "+".join(diff(a, b)), "input": f"{can}|{sc}|{um}",
                                    "what": f"StereoMolGraph.from_rdmol({can}, stereo_complete={sc}, use_atom_map_number={um}) differs from "
                                            f"the converter with the same options in {diff(a, b)}", "item": item, "detail": None})
            if set(mg.atoms) != set(got.atoms) or {frozenset(x) for x in mg.bonds} != {frozenset(x) for x in got.bonds}:
                out["viol"].append({"sig": "C12/organic/classmethod/molgraph-differs", "input": f"{can}|{um}",
                                    "what": f"MolGraph.from_rdmol({can}) has other atoms / bonds than StereoMolGraph.from_rdmol",
                                    "item": item, "detail": None})
    # distinct stereoisomers (distinct canonical isomeric SMILES) are unequal
    for opt, lst in per_iso.items():
        if not opt[2]:
            continue  # without lone-pair stereo some isomers legitimately coincide
        for (c1, a), (c2, b) in itertools.combinations(lst, 2):
            out["evals"] += 1
            if isinstance(a, str) or isinstance(b, str):
                continue
            if a == b:
                out["viol"].append({"sig": "C12/organic/stereoisomers-equal", "input": f"{c1}|{c2}|{opt}",
                                    "what": f"stereoisomers {c1} and {c2} import to equal graphs (options {opt})", "item": item,
                                    "detail": None})
            oc["isomer-pairs"] = oc.get("isomer-pairs", 0) + 1
    out["samples"].append({"smiles": smi, "stereoisomers": list(isos)})
    return out


def _fully_specified(m):
    from rdkit import Chem

    Chem.AssignStereochemistry(m, cleanIt=False, force=True, flagPossibleStereoCenters=True)
    for a in m.GetAtoms():
        if a.HasProp("_ChiralityPossible") and a.GetChiralTag() == Chem.ChiralType.CHI_UNSPECIFIED:
            return False
    for b in m.GetBonds():
        if b.GetBondType() == Chem.BondType.DOUBLE and b.GetStereo() == Chem.BondStereo.STEREOANY:
            return False
    from rdkit.Chem import FindMolChiralCenters  # noqa: F401

    si = Chem.FindPotentialStereo(m)
    for s in si:
        if s.specified != Chem.StereoSpecified.Specified:
            return False
    return True
