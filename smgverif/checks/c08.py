"""C08 - reaction graphs decompose and reverse faithfully (DESIGN.md 5/C08)."""
from __future__ import annotations

import itertools
from functools import lru_cache

from ..model import refgraph as RG
from ..model import refstereo as RS
from ..snapshot import norm, snap
from ..universe import graphs as U
from . import c06 as C6

PROP = "C08"
RULE = ("all triples (R, P, TS or none) over a common atom set: every pair of bond sets on n<=3 atoms (thorough n<=4 with <=4 bonds) "
        "x TS in {absent, every superset of R u P}; stereo: on one atom centre and one bond independently one of {none, d1, d2 (other "
        "isomer), d3 (other class)} in R, P and TS - all 4^3 combinations each, which covers every branch of from_graphs, also with "
        "the descriptor-carrying bond itself formed or broken; both "
        "reaction classes.  Oracle: reactant()/product() equal R/P (atoms, elements, bonds, descriptors up to symmetry); formed / "
        "broken / fleeting bonds are P\\R, R\\P, TS\\(RuP); reverse_reaction() swaps reactant and product incl. stereo, keeps fleeting "
        "bonds and fleeting stereo, reversing twice is identical; originals untouched.  distinct = triples")
ASSUMPTIONS = ["fully specified parities", "attributes other than element and role, and the stereo of the reconstructed transition "
               "state, are not compared (the statement does not speak of them)"]
BUDGET = {"quick": 600, "thorough": 1200}
MG, SMG, CRG, SCRG = RG.MG, RG.SMG, RG.CRG, RG.SCRG


def bond_triples(n, max_bonds=None):
    pairs = list(itertools.combinations(range(n), 2))
    sets = []
    for mask in range(1 << len(pairs)):
        bs = frozenset(p for i, p in enumerate(pairs) if mask >> i & 1)
        if max_bonds is None or len(bs) <= max_bonds:
            sets.append(bs)
    out = []
    for r in sets:
        for p in sets:
            u = r | p
            rest = [q for q in pairs if q not in u]
            out.append((r, p, None))
            for k in range(len(rest) + 1):
                for extra in itertools.combinations(rest, k):
                    if max_bonds is not None and len(u) + len(extra) > max_bonds + 1:
                        continue
                    out.append((r, p, u | frozenset(extra)))
    return out


@lru_cache(None)
def plain_items(tier):
    T = []
    for n in (1, 2, 3):
        for els in ((("C",) * n), tuple("CHO"[:n])):
            for r, p, ts in bond_triples(n):
                T.append((els, r, p, ts))
    for r, p, ts in bond_triples(4, max_bonds=(2 if tier == "quick" else 4)):
        T.append((("C", "C", "H", "O"), r, p, ts))
    return T


# stereo skeleton: centre 0 with ligands 1..4 (+ second carbon 5 to host a double bond 0=5 with substituents 6,7)
ATOMS = [(0, "C"), (1, "F"), (2, "Cl"), (3, "Br"), (4, "H")]
A_MENU = [None, ("Tetrahedral", (0, 1, 2, 3, 4), 1), ("Tetrahedral", (0, 1, 2, 3, 4), -1), ("SquarePlanar", (0, 1, 2, 3, 4), 0)]
B_ATOMS = [(0, "C"), (1, "C"), (2, "F"), (3, "H"), (4, "Cl"), (5, "H")]
B_BONDS = [(0, 1), (0, 2), (0, 3), (1, 4), (1, 5)]
B_MENU = [None, ("PlanarBond", (2, 3, 0, 1, 4, 5), 0), ("PlanarBond", (2, 3, 0, 1, 5, 4), 0), ("AtropBond", (2, 3, 0, 1, 4, 5), 1)]


def stereo_items(tier):
    """(kind, r_desc, p_desc, ts_desc or 'absent', bond variation)"""
    T = []
    for r, p in itertools.product(range(4), repeat=2):
        for ts in list(range(4)) + ["absent"]:
            for var in (0, 1, 2):
                T.append(("atom", r, p, ts, var))
                T.append(("bond", r, p, ts, var))
            # the bond that carries the descriptor is itself formed (var 3: no such bond, hence no descriptor, in the reactant)
            # or broken (var 4: none in the product)
            if r == 0:
                T.append(("bond", r, p, ts, 3))
            if p == 0:
                T.append(("bond", r, p, ts, 4))
    return T


def items(tier, seed):
    out = []
    P = plain_items(tier)
    for lo in range(0, len(P), 400):
        out.append({"part": "plain", "lo": lo, "hi": min(len(P), lo + 400), "tier": tier})
    S = stereo_items(tier)
    for lo in range(0, len(S), 60):
        out.append({"part": "stereo", "lo": lo, "hi": min(len(S), lo + 60), "tier": tier})
    return out


def _mk(kind, atoms, bonds, ast=None, bst=None):
    return U.mk(kind, atoms, sorted(bonds), astereo=[ast] if ast else [], bstereo=[bst] if bst else [])


def check_triple(R, P, TS, kind, item, out, tag):
    """R, P, TS: reference (Stereo)MolGraph models over the same atoms"""
    oc = out["outcomes"]

    def V(clause, what, detail=None):
        out["viol"].append({"sig": f"C08/{'SCRG' if kind == SCRG else 'CRG'}/{tag}/{clause}",
                            "input": f"{U.key(R)}|{U.key(P)}|{U.key(TS) if TS else None}",
                            "what": what + f" [R={U.describe(R)} P={U.describe(P)} TS={U.describe(TS) if TS else None}]",
                            "item": item, "detail": detail})

    cls = U.real_cls(kind)
    rR, rP = U.build(R), U.build(P)
    rT = U.build(TS) if TS is not None else None
    before = (norm(snap(rR)), norm(snap(rP)), norm(snap(rT)) if rT is not None else None)
    try:
        rg = cls.from_graphs(rR, rP, rT) if rT is not None else cls.from_graphs(rR, rP)
    except Exception as e:
        V("from_graphs-raised:" + type(e).__name__, f"from_graphs raised {e!r}")
        return
    out["evals"] += 1
    out["distinct"] += 1
    if (norm(snap(rR)), norm(snap(rP)), norm(snap(rT)) if rT is not None else None) != before:
        V("inputs-modified", "from_graphs modified its arguments")
    s0 = norm(snap(rg))
    rb, pb = set(R.bonds), set(P.bonds)
    tb = set(TS.bonds) if TS is not None else rb | pb
    for name, exp in (("get_formed_bonds", pb - rb), ("get_broken_bonds", rb - pb), ("get_fleeting_bonds", tb - rb - pb)):
        try:
            got = set(getattr(rg, name)())
        except Exception as e:
            V(f"{name}-raised:" + type(e).__name__, f"{name} raised {e!r}")
            continue
        out["evals"] += 1
        if got != exp:
            V(name, f"{name}() = {sorted(map(sorted, got))}, expected {sorted(map(sorted, exp))}")

    def side_ok(real_side, model, label):
        try:
            g = real_side()
        except Exception as e:
            V(f"{label}-raised:" + type(e).__name__, f"{label} raised {e!r}")
            return None
        out["evals"] += 1
        m = U.from_real(g)
        exp_kind = SMG if kind == SCRG else MG
        mm = U.to_kind(model, exp_kind)
        bad = C6.same_graph(m, mm)
        if bad:
            V(f"{label}:" + "+".join(bad), f"{label} differs from the original in {bad}",
              {"got": U.describe(m), "expected": U.describe(mm)})
        return g

    side_ok(rg.reactant, R, "reactant")
    side_ok(rg.product, P, "product")
    try:
        rev = rg.reverse_reaction()
    except Exception as e:
        V("reverse-raised:" + type(e).__name__, f"reverse_reaction raised {e!r}")
        return
    if norm(snap(rg)) != s0:
        V("reverse-modified-original", "reverse_reaction()/reactant()/product() modified the reaction graph")
    side_ok(rev.reactant, P, "reverse.reactant")
    side_ok(rev.product, R, "reverse.product")
    try:
        if set(rev.get_fleeting_bonds()) != tb - rb - pb:
            V("reverse-fleeting-bonds", "reverse_reaction changed the fleeting bonds")
        if set(rev.get_formed_bonds()) != rb - pb or set(rev.get_broken_bonds()) != pb - rb:
            V("reverse-roles", "reverse_reaction did not swap formed and broken bonds")
    except Exception as e:
        V("reverse-bonds-raised:" + type(e).__name__, f"{e!r}")
    if kind == SCRG:
        m0, m1 = U.from_real(rg), U.from_real(rev)
        fl0 = ({c: kd.get("FLEETING") for c, kd in m0.achg.items() if "FLEETING" in kd},
               {c: kd.get("FLEETING") for c, kd in m0.bchg.items() if "FLEETING" in kd})
        fl1 = ({c: kd.get("FLEETING") for c, kd in m1.achg.items() if "FLEETING" in kd},
               {c: kd.get("FLEETING") for c, kd in m1.bchg.items() if "FLEETING" in kd})
        if not (C6._desc_equal_maps(fl0[0], fl1[0]) and C6._desc_equal_maps(fl0[1], fl1[1])):
            V("reverse-fleeting-stereo", "reverse_reaction changed the fleeting stereo", {"before": fl0, "after": fl1})
    try:
        rr = rev.reverse_reaction()
        bad = C6.same_graph(U.from_real(rr), U.from_real(rg))
        if bad:
            V("reverse-twice:" + "+".join(bad), f"reversing twice differs from the original in {bad}")
        out["evals"] += 1
    except Exception as e:
        V("reverse-twice-raised:" + type(e).__name__, f"{e!r}")
    k = ("with-ts" if TS is not None else "no-ts") + ("+changes" if (rb != pb) else "")
    oc[k] = oc.get(k, 0) + 1


def run_item(item):
    out = {"evals": 0, "distinct": 0, "outcomes": {}, "viol": [], "samples": []}
    if item["part"] == "plain":
        T = plain_items(item["tier"])[item["lo"]:item["hi"]]
        for els, r, p, ts in T:
            atoms = list(enumerate(els))
            for kind, sk in ((CRG, MG), (SCRG, SMG)):
                R, P = _mk(sk, atoms, r), _mk(sk, atoms, p)
                TS = _mk(sk, atoms, ts) if ts is not None else None
                check_triple(R, P, TS, kind, item, out, "plain")
        if T and not out["samples"]:
            out["samples"].append({"part": "plain", "elements": T[-1][0], "R": sorted(T[-1][1]), "P": sorted(T[-1][2]),
                                   "TS": sorted(T[-1][3]) if T[-1][3] is not None else None})
        return out
    S = stereo_items(item["tier"])[item["lo"]:item["hi"]]
    for which, r, p, ts, var in S:
        if which == "atom":
            base = [(0, i) for i in (1, 2, 3, 4)]
            # var 0: same bonds; var 1: bond 0-4 formed; var 2: bond 0-4 broken (descriptors then name a non-neighbour on
            # one side, which from_graphs accepts)
            rb = [b for b in base if not (var == 1 and b == (0, 4))]
            pb = [b for b in base if not (var == 2 and b == (0, 4))]
            R = _mk(SMG, ATOMS, rb, ast=A_MENU[r])
            P = _mk(SMG, ATOMS, pb, ast=A_MENU[p])
            TS = None if ts == "absent" else _mk(SMG, ATOMS, base, ast=A_MENU[ts])
        else:
            extra = [(2, 4)]
            rb = B_BONDS + (extra if var == 2 else [])
            pb = B_BONDS + (extra if var == 1 else [])
            if var == 3:
                rb = [b for b in B_BONDS if b != (0, 1)]
            if var == 4:
                pb = [b for b in B_BONDS if b != (0, 1)]
            R = _mk(SMG, B_ATOMS, rb, bst=B_MENU[r])
            P = _mk(SMG, B_ATOMS, pb, bst=B_MENU[p])
            TS = None if ts == "absent" else _mk(SMG, B_ATOMS, B_BONDS + extra, bst=B_MENU[ts])
        check_triple(R, P, TS, SCRG, item, out, f"stereo-{which}")
    if S and not out["samples"]:
        out["samples"].append({"part": "stereo", "case": list(S[-1])})
    return out
