"""Shared by C01 / C03: every short editing history over a stereo-valid skeleton, with the graph hashed and compared after
every call, must end in an object that equals - and hashes like - a graph freshly built with the content the reference model
predicts.  Decides 'equality / hash is a function of the content, not of what the object went through' (cached hashes,
cached colourings, containers that keep stale entries) for every ordered pair / triple of public mutators.

skeleton:  0(C) bonded to 1(H) 2(F) 3(Cl) 4(Br)          tetrahedral unit
           10(C)-11(C), 10 bonded to 12(H) 13(F), 11 bonded to 14(H) 15(Cl)   planar unit
           20(He) isolated, 21(H)-22(H) a pair             scratch atoms that the edits add / remove / bond / relabel
"""
from __future__ import annotations

import itertools

from ..explore import ops as OPS
from ..model import refgraph as RG
from ..model import refstereo as RS
from ..universe import graphs as U

MG, SMG, CRG, SCRG = RG.MG, RG.SMG, RG.CRG, RG.SCRG
SHORT = {MG: "MG", SMG: "SMG", CRG: "CRG", SCRG: "SCRG"}
D = OPS.D
TP = D("Tetrahedral", (0, 1, 2, 3, 4), 1)
TM = D("Tetrahedral", (0, 1, 2, 3, 4), -1)
PB = D("PlanarBond", (12, 13, 10, 11, 14, 15), 0)
PB2 = D("PlanarBond", (12, 13, 10, 11, 15, 14), 0)

SKELETON = ([["add_atom", a, e] for a, e in ((0, "C"), (1, "H"), (2, "F"), (3, "Cl"), (4, "Br"), (10, "C"), (11, "C"), (12, "H"),
                                             (13, "F"), (14, "H"), (15, "Cl"), (20, "He"), (21, "H"), (22, "H"))]
            + [["add_bond", a, b] for a, b in ((0, 1), (0, 2), (0, 3), (0, 4), (10, 11), (10, 12), (10, 13), (11, 14), (11, 15),
                                               (21, 22))])


def alphabet(kind):
    A = [
        ["add_atom", 30, "C"], ["add_atom", 20, "H"], ["remove_atom", 20], ["remove_atom", 22], ["remove_atom", 30],
        ["add_bond", 20, 21], ["remove_bond", 21, 22], ["remove_bond", 20, 21], ["add_bond", 21, 22],
        ["set_atom_attribute", 20, "atom_type", "O"], ["set_atom_attribute", 21, "x", 1], ["delete_atom_attribute", 21, "x"],
        ["set_bond_attribute", 21, 22, "x", 1], ["delete_bond_attribute", 21, 22, "x"],
        ["relabel_atoms", {"map": [[20, 40]]}], ["relabel_atoms", {"map": [[21, 22], [22, 21]]}],
        ["relabel_atoms", {"map": [[0, 50]]}], ["relabel_atoms", {"map": [[1, 2], [2, 1]]}],
        ["relabel_atoms", {"map": [[14, 15], [15, 14]]}],
        ["remove_atom", 3], ["remove_atom", 0], ["remove_atom", 15],
    ]
    if kind in (CRG, SCRG):
        A += [["set_bond_attribute", 21, 22, "reaction", "Change.FORMED"], ["set_bond_attribute", 21, 22, "reaction", "Change.BROKEN"],
              ["add_formed_bond", 20, 21], ["add_broken_bond", 20, 22], ["add_fleeting_bond", 20, 21],
              ["delete_bond_attribute", 21, 22, "reaction"], ["add_bond", 21, 22, {"kw": {"reaction": "Change.FLEETING"}}]]
    if kind in (SMG, SCRG):
        A += [["set_atom_stereo", TP], ["set_atom_stereo", TM], ["delete_atom_stereo", 0],
              ["set_bond_stereo", PB], ["set_bond_stereo", PB2], ["delete_bond_stereo", [10, 11]]]
    if kind == SCRG:
        A += [["set_atom_stereo_change", {"kw": {"broken": TP, "formed": TM}}], ["set_atom_stereo_change", {"kw": {"fleeting": TP}}],
              ["delete_atom_stereo_change", 0], ["delete_atom_stereo_change", 0, "Change.BROKEN"],
              ["set_bond_stereo_change", {"kw": {"formed": PB}}], ["set_bond_stereo_change", {"kw": {"broken": PB, "formed": PB2}}],
              ["delete_bond_stereo_change", [10, 11]], ["delete_bond_stereo_change", [10, 11], "Change.FORMED"]]
    return A


def roots(kind):
    R = [("skeleton", SKELETON)]
    if kind in (CRG, SCRG):
        R.append(("roles", SKELETON + [["set_bond_attribute", 21, 22, "reaction", "Change.FORMED"], ["add_broken_bond", 20, 21]]))
    if kind in (SMG, SCRG):
        R.append(("stereo", SKELETON + [["set_atom_stereo", TP], ["set_bond_stereo", PB]]))
    if kind == SCRG:
        R.append(("changes", SKELETON + [["set_atom_stereo_change", {"kw": {"broken": TP, "formed": TM}}],
                                         ["set_bond_stereo_change", {"kw": {"formed": PB}}]]))
    return R


def valid(m):
    """every descriptor (also inside stereo changes) is over its centre and exactly the centre's bonded neighbours, no centre
    carries both a descriptor and a change, and no bond at a stereo centre has a reaction role"""
    def ok_atom(d):
        c = d[1][0]
        lig = [a for a in d[1][1:] if a is not None]
        return c in m.atoms and set(lig) == set(m.nbrs(c)) and len(set(lig)) == len(lig)

    def ok_bond(d):
        t = d[1]
        a, b = t[2], t[3]
        if RG.B(a, b) not in m.bonds:
            return False
        la = {x for x in t[:2] if x is not None}
        lb = {x for x in t[4:] if x is not None}
        return la == set(m.nbrs(a)) - {b} and lb == set(m.nbrs(b)) - {a}

    centres = set()
    for d in m.astereo.values():
        if not ok_atom(d):
            return False
        centres.add(d[1][0])
    for d in m.bstereo.values():
        if not ok_bond(d):
            return False
        centres |= {d[1][2], d[1][3]}
    for c, kd in m.achg.items():
        if c in m.astereo:
            return False
        for d in kd.values():
            if not ok_atom(d):
                return False
        centres.add(c)
    for c, kd in m.bchg.items():
        if c in m.bstereo:
            return False
        for d in kd.values():
            if not ok_bond(d):
                return False
        centres |= set(c)
    for b, at in m.bonds.items():
        if at.get("reaction") and (set(b) & centres):
            return False
    return True


def items(tier):
    out = []
    depth = 2 if tier == "quick" else 3
    for kind in (SCRG, CRG, SMG, MG):         # (slowest class first)
        al = alphabet(kind)
        for ri, (rname, _) in enumerate(roots(kind)):
            for i in range(len(al)):
                # (triples for the stereo reaction class would be 318 000 sequences of ~40 ms each: pairs only)
                out.append({"part": "history", "kind": kind, "root": ri, "first": i, "depth": 2 if kind == SCRG else depth, "tier": tier})
    return out


def _use(g):
    try:
        hash(g)
    except Exception:
        pass
    try:
        g == g
    except Exception:
        pass


def run(item, out, prop):
    """enumerates every sequence of `depth` (or fewer) well-formed calls after the root; `prop` selects the clause (C01: ==,
    C03: hash)"""
    kind, depth = item["kind"], item["depth"]
    al = alphabet(kind)
    rname, root = roots(kind)[item["root"]]
    oc = out["outcomes"]
    firsts = range(len(al)) if item["first"] is None else [item["first"]]
    seqs = []
    for i in firsts:
        seqs.append((i,))
        for rest in itertools.product(range(len(al)), repeat=depth - 1):
            for k in range(1, depth):
                seqs.append((i, *rest[:k]))
    seen = set()
    for seq in seqs:
        if seq in seen:
            continue
        seen.add(seq)
        g = OPS.real_cls(kind)()
        m = RG.RefGraph(kind)
        for op in root:
            OPS.apply_real(g, op)
            OPS.apply_model(m, op)
        _use(g)
        okseq = True
        names = []
        for i in seq:
            op = al[i]
            verdict, shape = OPS.classify(m, op)
            if verdict != "wf":
                okseq = False
                break
            try:
                OPS.apply_real(g, op)
            except Exception:
                okseq = False       # C09's business
                break
            OPS.apply_model(m, op)
            names.append(op[0])
            _use(g)
        if not okseq:
            oc["history-not-well-formed"] = oc.get("history-not-well-formed", 0) + 1
            continue
        if not valid(m):
            oc["history-ends-stereo-invalid"] = oc.get("history-ends-stereo-invalid", 0) + 1
            continue
        try:
            twin = U.build(m)
        except Exception:
            oc["history-twin-not-buildable"] = oc.get("history-twin-not-buildable", 0) + 1
            continue
        out["evals"] += 1
        out["distinct"] += 1
        oc[f"history-len{len(seq)}"] = oc.get(f"history-len{len(seq)}", 0) + 1
        hist = [al[i] for i in seq]

        def V(clause, what):
            out["viol"].append({"sig": f"{prop}/{SHORT[kind]}/history:{'>'.join(names)}/{clause}", "input": f"{rname}:{seq}",
                                "what": what + f" (class {kind}, root '{rname}', then {hist}, hash and == evaluated after every call)",
                                "item": item, "detail": {"content": U.describe(m), "sequence": hist}})

        if prop == "C01":
            for nm, a, b in (("fwd", twin, g), ("rev", g, twin)):
                try:
                    r = a == b
                    r = bool(r) if r is not NotImplemented else False
                except Exception as e:
                    r = "EXC:" + type(e).__name__
                if r is not True:
                    V(f"{nm}-{r}", f"{nm}: an edited graph vs a freshly built graph with the same content: == is {r}")
        else:
            from .eqcommon import fully_specified

            if fully_specified(m):
                try:
                    h1, h2 = hash(g), hash(twin)
                except Exception as e:
                    h1, h2 = "EXC:" + type(e).__name__, None
                if h1 != h2:
                    V("hash-differs", f"hash {h1} of an edited graph differs from hash {h2} of a freshly built graph with the same content")
    return out
