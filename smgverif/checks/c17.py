"""C17 - subgraph, compose and components form a consistent algebra (DESIGN.md 5/C17)."""
from __future__ import annotations

import itertools
from functools import lru_cache

from ..explore import bfs as BFS
from ..model import refgraph as RG
from ..model import refstereo as RS
from ..snapshot import diff, norm, snap
from ..universe import graphs as U
from . import eqcommon as E

PROP = "C17"
RULE = ("every spec with <=5 atoms (6 for two-unit graphs) of all four universes, with attributes, descriptors crossing the cut, "
        "placeholders and stereo changes x EVERY subset S given as list, tuple, set, frozenset, dict keys view, one-shot "
        "generator, and with repeated atoms (padded to exactly n entries, doubled, iterator with repeats): subgraph(S) == induced labelled subgraph of the reference model; connected_components() == union-find "
        "partition; compose over every ordered pair of pieces (S1,S2) covering the atoms (3^n covers, overlaps allowed; the pieces themselves must come out unchanged) and over "
        "the component subgraphs in every order == labelled union (later wins) with coherent neighbour sets; every such cover again with all descriptors and stereo changes of the second piece replaced by another isomer over the same atoms, in both orders of the pieces (the later piece wins on shared centres); SN2-type specs whose broken / formed / fleeting descriptors of one centre or bond name different atom sets; centres / stereo bonds with a bonded neighbour the descriptor does not mention; composing the "
        "component subgraphs reproduces the graph; large graphs (a chain of n atoms with scrambled ids + ring + isolated atoms + a "
        "stereo/reaction unit, n around 127/128, 255/256, 300; thorough also 512, 1100): components, node components, compose of the "
        "component subgraphs, a 2/3 induced subgraph; two / three identical fragments (isomorphic pieces with their own descriptors and "
        "stereo changes) composed in every order.  distinct = (spec, subset, container) + (spec, cover) executions")
ASSUMPTIONS = ["compose receives lists/tuples (the statement says 'any iterable' for subgraph only)",
               "descriptor / stereo-change kept iff all of its atoms (placeholders excluded) lie in S"]
BUDGET = {"quick": 600, "thorough": 1200}
MG, SMG, CRG, SCRG = RG.MG, RG.SMG, RG.CRG, RG.SCRG


def _other(d):
    """another spatially distinct descriptor of the same class over the same atoms (None if there is none to be had)"""
    c, t, p = d
    t = tuple(t)
    if p in (1, -1):
        return (c, t, -p)
    if p == 0 and len(t) >= 3:
        i, j = (0, 1) if c in RS.BOND_CLASSES else (1, 2)
        o = (c, t[:i] + (t[j],) + t[i + 1:j] + (t[i],) + t[j + 1:], p)
        return None if RS.equal(o, d) else o
    return None


def _other_isomers(m):
    """copy of the model graph with every descriptor and stereo change replaced by another isomer; None if nothing changes"""
    x = m.copy()
    changed = False
    for tab in (x.astereo, x.bstereo):
        for k, d in list(tab.items()):
            o = _other(d)
            if o is not None:
                tab[k] = o
                changed = True
    for tab in (x.achg, x.bchg):
        for k, kd in tab.items():
            for ck, d in list(kd.items()):
                o = _other(d)
                if o is not None:
                    kd[ck] = o
                    changed = True
    return x if changed else None


def sn2_specs():
    """centres whose broken / formed / fleeting descriptors name *different* atom sets (an SN2 carbon: the broken descriptor names the
    leaving group, the formed one the nucleophile, the fleeting one both), alone and next to a bond whose changes name different
    substituents: a subset S may hold one of the descriptors of a centre and not the other"""
    out = []
    atoms = [(0, "C"), (1, "H"), (2, "H"), (3, "Cl"), (4, "F")]
    bonds = [(0, 1), (0, 2), (0, 3, "BROKEN"), (0, 4, "FORMED")]
    tb = ("Tetrahedral", (0, 1, 2, None, 3), 1)
    tf = ("Tetrahedral", (0, 1, 2, None, 4), -1)
    tt = ("TrigonalBipyramidal", (0, 3, 4, 1, 2, None), 1)
    for kd in ({"BROKEN": tb, "FORMED": tf}, {"BROKEN": tb, "FORMED": tf, "FLEETING": tt}, {"FORMED": tf, "FLEETING": tt},
               {"BROKEN": tb, "FLEETING": tt}):
        out.append(U.mk(SCRG, atoms, bonds, achg={0: kd}))
    # a double bond 0=1 that stays, one substituent of atom 1 exchanged (4 leaves, 5 arrives): the broken descriptor names 4, the formed one 5
    atoms = [(0, "C"), (1, "C"), (2, "H"), (3, "F"), (4, "Cl"), (5, "Br")]
    bonds = [(0, 1), (0, 2), (0, 3), (1, 4, "BROKEN"), (1, 5, "FORMED")]
    pb = ("PlanarBond", (2, 3, 0, 1, 4, None), 0)
    pf = ("PlanarBond", (2, 3, 0, 1, None, 5), 0)
    out.append(U.mk(SCRG, atoms, bonds, bchg={(0, 1): {"BROKEN": pb, "FORMED": pf}}))
    out.append(U.mk(SCRG, atoms, bonds, bchg={(0, 1): {"BROKEN": pb, "FORMED": pf}},
                    achg={1: {"BROKEN": ("Tetrahedral", (1, 0, 4, None, None), 1), "FORMED": ("Tetrahedral", (1, 0, 5, None, None), 1)}}))
    return out


def extra_contact_specs():
    """centres / stereo bonds with a bonded neighbour that the descriptor does not mention (a fleeting contact, a hand-set descriptor
    with a placeholder): S may hold every atom of the descriptor and not that neighbour - the descriptor stays"""
    out = []
    atoms = [(0, "C"), (1, "F"), (2, "Cl"), (3, "Br"), (4, "H")]
    star = [(0, 1), (0, 2), (0, 3), (0, 4)]
    t = ("Tetrahedral", (0, 1, 2, 3, None), 1)
    out.append(U.mk(SMG, atoms, star, astereo=[t]))
    out.append(U.mk(SCRG, atoms, star[:3] + [(0, 4, "FLEETING")], astereo=[t]))
    out.append(U.mk(SCRG, atoms, star[:3] + [(0, 4, "FORMED")], achg={0: {"BROKEN": t, "FORMED": ("Tetrahedral", (0, 1, 2, 3, 4), 1)}}))
    atoms6 = atoms + [(5, "O")]
    out.append(U.mk(SMG, atoms6, star + [(0, 5)], astereo=[("Tetrahedral", (0, 1, 2, 3, 4), -1)]))
    batoms = [(0, "C"), (1, "C"), (2, "F"), (3, "Cl"), (4, "H"), (5, "H")]
    bbonds = [(0, 1), (0, 2), (1, 3), (0, 4), (1, 5)]
    pb = ("PlanarBond", (2, None, 0, 1, 3, None), 0)
    out.append(U.mk(SMG, batoms, bbonds, bstereo=[pb]))
    out.append(U.mk(SCRG, batoms, bbonds[:3] + [(0, 4, "FLEETING"), (1, 5, "BROKEN")], bstereo=[pb]))
    return out


@lru_cache(None)
def specs(tier):
    S = []
    mg = [g for g in U.MG_reps(4, ("C", "H", "O")) if g.atoms]
    S += mg[::(2 if tier == "quick" else 1)]
    S += [U.to_kind(g, k) for g in mg if len(g.atoms) <= 3 for k in (SMG, CRG, SCRG)][::2]
    S += [g for g in U.CRG_reps(3) if g.atoms][::(2 if tier == "quick" else 1)]
    S += [g for g in U.stars(4)]
    S += [g for g in U.stars(5) if len(g.atoms) == 6][::(6 if tier == "quick" else 1)]
    S += [g for g in U.two_unit() if len(g.atoms) <= 6][::(2 if tier == "quick" else 1)]
    S += [g for g in U.scrg_universe("quick") if g.atoms and len(g.atoms) <= 7][::(2 if tier == "quick" else 1)]
    S += [g for g in U.stars_extra() if len(g.atoms) <= 5]
    S += [U.to_kind(g, SCRG) for g in U.stars_extra() if len(g.atoms) <= 5][::3]
    S += sn2_specs()
    S += extra_contact_specs()
    out = []
    for i, g in enumerate(S):
        h = g.copy()
        if i % 2 == 0:
            ids = list(h.atoms)
            h.atoms[ids[0]]["x"] = 1
            h.atoms[ids[-1]]["y"] = 2
            if h.bonds:
                h.bonds[next(iter(h.bonds))]["w"] = 3
        out.append(h)
    return out


def items(tier, seed):
    n = len(specs(tier))
    out = [{"lo": lo, "hi": min(n, lo + 4), "tier": tier} for lo in range(0, n, 4)]
    out += [{"large": sz, "kind": k, "tier": tier} for sz in LARGE[tier] for k in (MG, SMG, CRG, SCRG)]
    out += [{"fragments": k, "tier": tier} for k in (MG, SMG, CRG, SCRG)]
    return out


# sizes around the limits of small integer types and (thorough) of the interpreter's recursion limit
LARGE = {"quick": (126, 127, 128, 129, 130, 255, 256, 257, 300), "thorough": (64, 65, 126, 127, 128, 129, 130, 200, 254, 255, 256, 257, 258,
                                                                               300, 511, 512, 513, 1100)}


def large_spec(kind, n):
    """a chain of n atoms (ids in a scrambled order), a ring of n//2+3 atoms, two isolated atoms, one ethane-like unit that carries a
    descriptor (stereo classes) and one formed bond (reaction classes)"""
    k = 7 if n % 7 else 11
    chain = [((i * k) % n) for i in range(n)]                  # a permutation of 0..n-1: neighbours in the chain are far apart as ids
    ring = list(range(n, n + n // 2 + 3))
    iso = [5000, 5001]
    atoms = [(a, "C") for a in range(n)] + [(a, "O") for a in ring] + [(a, "He") for a in iso]
    bonds = [(chain[i], chain[i + 1]) for i in range(n - 1)] + [(ring[i], ring[(i + 1) % len(ring)]) for i in range(len(ring))]
    cen = [(6000, "C"), (6001, "H"), (6002, "F"), (6003, "Cl"), (6004, "Br")]
    atoms += cen
    cb = [(6000, 6001), (6000, 6002), (6000, 6003), (6000, 6004)]
    if kind in (CRG, SCRG):
        cb[0] = (6000, 6001, "FORMED")
    bonds += cb
    ast = [("Tetrahedral", (6000, 6001, 6002, 6003, 6004), 1)] if kind == SMG else []
    return U.mk(kind, atoms, bonds, astereo=ast)


def _fragments(item, out):
    """graphs that consist of two / three IDENTICAL fragments (same molecule, other identifiers; graphs compare and hash by
    isomorphism, so identical pieces are 'equal' objects): composing separately built pieces, and composing the component
    subgraphs in every order, must give the labelled union with the descriptors and stereo changes of EVERY piece"""
    kind = item["fragments"]
    oc = out["outcomes"]

    def piece(off):
        atoms = [(off, "C"), (off + 1, "H"), (off + 2, "F"), (off + 3, "Cl"), (off + 4, "Br")]
        bonds = [(off, off + 1), (off, off + 2), (off, off + 3), (off, off + 4)]
        kw = {}
        t = (off, off + 1, off + 2, off + 3, off + 4)
        if kind in (CRG, SCRG):
            bonds[3] = (off, off + 4, "BROKEN")
        if kind == SMG:
            kw["astereo"] = [("Tetrahedral", t, 1)]
        if kind == SCRG:
            kw["achg"] = {off: {"BROKEN": ("Tetrahedral", t, 1), "FORMED": ("Tetrahedral", t, -1)}}
        return U.mk(kind, atoms, bonds, **kw)

    def V(clause, what):
        out["viol"].append({"sig": f"C17/{E.SHORT[kind]}/identical-fragments/{clause}", "input": clause, "what": what, "item": item,
                            "detail": None})

    for k in (2, 3):
        ms = [piece(10 * i) for i in range(k)]
        exp = _drop_empty(RG.RefGraph.compose(kind, ms)).observe()
        for order in itertools.permutations(range(k)):
            out["evals"] += 1
            out["distinct"] += 1
            oc["identical-fragments"] = oc.get("identical-fragments", 0) + 1
            try:
                h = U.real_cls(kind).compose([U.build(ms[i]) for i in order])
            except Exception as e:
                V("compose-raised:" + type(e).__name__, f"compose of {k} identical fragments raised {e!r}")
                continue
            d = diff(norm(snap(h), drop_empty_changes=True), exp)
            if d:
                V("compose-pieces:" + "+".join(d), f"composing {k} separately built identical fragments (order {order}) differs from the "
                                                   f"labelled union in {d}")
            try:
                comps = sorted(h.connected_components(), key=min)
                if len(comps) != k:
                    V("components", f"{len(comps)} components for {k} fragments")
                h2 = type(h).compose([h.subgraph(sorted(c)) for c in (comps if order[0] == 0 else comps[::-1])])
                d = diff(norm(snap(h2), drop_empty_changes=True), exp)
                if d:
                    V("compose-components:" + "+".join(d), f"composing the component subgraphs of {k} identical fragments differs from "
                                                           f"the graph in {d}")
            except Exception as e:
                V("components-raised:" + type(e).__name__, f"{e!r}")
    return out


def _large(item, out):
    kind, n = item["kind"], item["large"]
    m = large_spec(kind, n)
    g = U.build(m)
    oc = out["outcomes"]

    def V(clause, what):
        out["viol"].append({"sig": f"C17/{E.SHORT[kind]}/large/{clause}", "input": f"n={n}", "what": what + f" [{kind}: chain of {n} atoms, "
                            f"ring of {n // 2 + 3}, two isolated atoms, one five-atom unit]", "item": item, "detail": None})

    expect = {frozenset(c) for c in m.components()}
    out["evals"] += 1
    out["distinct"] += 1
    oc["large-components"] = 1
    try:
        got = [frozenset(c) for c in g.connected_components()]
    except Exception as e:
        V("components-raised:" + type(e).__name__, f"connected_components() raised {e!r}")
        got = None
    if got is not None and (set(got) != expect or len(got) != len(expect)):
        V("components", f"connected_components() returned {len(got)} sets (sizes {sorted(map(len, got))[-4:]}), expected {len(expect)} "
                        f"(sizes {sorted(map(len, expect))[-4:]})")
    for a in (0, n - 1, n, 5000, 6002):
        out["evals"] += 1
        try:
            c = frozenset(g.node_connected_component(a))
        except Exception as e:
            V("node-component-raised:" + type(e).__name__, f"node_connected_component({a}) raised {e!r}")
            continue
        if c != next(x for x in expect if a in x):
            V("node-component", f"node_connected_component({a}) has {len(c)} atoms, expected {len(next(x for x in expect if a in x))}")
    # composing the component subgraphs reproduces the graph; a large induced subgraph is exactly the model's
    out["evals"] += 2
    try:
        parts = [g.subgraph(sorted(c)) for c in sorted(expect, key=lambda c: min(c))]
        comp = type(g).compose(parts)
        d = diff(norm(snap(comp), drop_empty_changes=True), m.observe())
        if d:
            V("compose-components:" + "+".join(d), f"composing the component subgraphs differs from the graph in {d}")
    except Exception as e:
        V("compose-raised:" + type(e).__name__, f"subgraph / compose raised {e!r}")
    S = [a for a in m.atoms if a % 3 != 1]
    try:
        sub = g.subgraph(iter(S))
        d = diff(norm(snap(sub), drop_empty_changes=True), _drop_empty(m.subgraph(S)).observe())
        if d:
            V("subgraph:" + "+".join(d), f"subgraph of {len(S)} atoms differs from the induced subgraph in {d}")
    except Exception as e:
        V("subgraph-raised:" + type(e).__name__, f"subgraph raised {e!r}")
    return out


def _drop_empty(m):
    m.achg = {c: kd for c, kd in m.achg.items() if kd}
    m.bchg = {c: kd for c, kd in m.bchg.items() if kd}
    return m


CONTAINERS = {
    "list": lambda s: list(s),
    "list-reversed": lambda s: list(reversed(s)),
    "tuple": lambda s: tuple(s),
    "set": lambda s: set(s),
    "frozenset": lambda s: frozenset(s),
    "dict_keys": lambda s: dict.fromkeys(s).keys(),
    "generator": lambda s: (a for a in s),
    "iter": lambda s: iter(list(s)),
}


def run_item(item):
    out = {"evals": 0, "distinct": 0, "outcomes": {}, "viol": [], "samples": []}
    if "large" in item:
        return _large(item, out)
    if "fragments" in item:
        return _fragments(item, out)
    oc = out["outcomes"]
    for m in specs(item["tier"])[item["lo"]:item["hi"]]:
        ids = list(m.atoms)
        n = len(ids)
        g = U.build(m)
        base = norm(snap(g))
        universe = ids + [max(ids) + 13]

        def V(clause, what, detail=None, inp=""):
            out["viol"].append({"sig": f"C17/{E.SHORT[m.kind]}/{clause}", "input": f"{U.key(m)}|{inp}",
                                "what": what + f" [{U.describe(m)}]", "item": item, "detail": detail})

        # ---- subgraph ------------------------------------------------------------------------------
        for k in range(0, n + 1):
            for S in itertools.combinations(ids, k):
                exp = m.subgraph(S).observe()
                for cname, mkc in CONTAINERS.items():
                    try:
                        h = g.subgraph(mkc(S))
                    except Exception as e:
                        V(f"subgraph/{cname}/raised:{type(e).__name__}", f"subgraph({cname} {S}) raised {e!r}", inp=str(S))
                        continue
                    out["evals"] += 1
                    out["distinct"] += 1
                    oc["subgraph-" + cname] = oc.get("subgraph-" + cname, 0) + 1
                    got = norm(snap(h), drop_empty_changes=True)
                    d = diff(got, exp)
                    if d:
                        V(f"subgraph/{cname}/wrong:" + "+".join(d), f"subgraph({cname} {S}) differs from the induced subgraph in {d}",
                          {x: {"real": got.get(x), "model": exp.get(x)} for x in d}, inp=str(S))
                    elif cname in ("list", "list-reversed", "set"):
                        # all public views of the subgraph (matrix, components, neighbour queries, getters) are coherent
                        inc = BFS.check_coherent(h, _drop_empty(m.subgraph(S)), universe)
                        if inc:
                            V(f"subgraph/{cname}/" + inc[0][0], f"public view {inc[0][0]} of subgraph({cname} {S}) disagrees with the "
                              f"induced subgraph", inc[0][1], inp=str(S))
                    if type(h) is not type(g):
                        V(f"subgraph/{cname}/class", f"subgraph returned a {type(h).__name__}", inp=str(S))
        # S may name an atom more than once (a list built by walking bonds): padded to exactly n entries, doubled, and a
        # one-shot iterator over a list with repeats
        for k in range(1, n):
            for S in itertools.combinations(ids, k):
                exp = m.subgraph(S).observe()
                pad = (list(S) * (n // k + 1))[:n]
                for cname, arg in (("list-padded-to-n", pad), ("tuple-doubled", tuple(S) + tuple(reversed(S))), ("iter-with-repeats", iter(pad + list(S)))):
                    try:
                        h = g.subgraph(arg)
                    except Exception as e:
                        V(f"subgraph/{cname}/raised:{type(e).__name__}", f"subgraph({cname} of {S}) raised {e!r}", inp=str(S))
                        continue
                    out["evals"] += 1
                    out["distinct"] += 1
                    oc["subgraph-" + cname] = oc.get("subgraph-" + cname, 0) + 1
                    got = norm(snap(h), drop_empty_changes=True)
                    d = diff(got, exp)
                    if d:
                        V(f"subgraph/{cname}/wrong:" + "+".join(d), f"subgraph({cname} of {S}) differs from the induced subgraph in {d}",
                          {x: {"real": got.get(x), "model": exp.get(x)} for x in d}, inp=str(S))
        if norm(snap(g)) != base:
            V("subgraph/modified-source", "subgraph() modified the source graph")
        # ---- components --------------------------------------------------------------------------------
        try:
            comps = g.connected_components()
            got = sorted(sorted(c) for c in comps)
            exp = sorted(sorted(c) for c in m.components())
            out["evals"] += 1
            if got != exp:
                V("components/wrong", f"connected_components() = {got}, expected {exp}")
            for a in ids:
                c = sorted(g.node_connected_component(a))
                if c != next(x for x in exp if a in x):
                    V("components/node-wrong", f"node_connected_component({a}) = {c}")
        except Exception as e:
            V("components/raised:" + type(e).__name__, f"connected_components raised {e!r}")
            comps = None
        # ---- compose over component subgraphs, every order ----------------------------------------------------
        if comps is not None:
            full = m.observe()
            orders = list(itertools.permutations(comps)) if len(comps) <= 3 else [tuple(comps), tuple(reversed(comps))]
            for od in orders:
                try:
                    pieces = [g.subgraph(sorted(c)) for c in od]
                    h = type(g).compose(pieces)
                except Exception as e:
                    V("compose-components/raised:" + type(e).__name__, f"compose(component subgraphs) raised {e!r}")
                    continue
                out["evals"] += 1
                out["distinct"] += 1
                oc["compose-components"] = oc.get("compose-components", 0) + 1
                got = norm(snap(h), drop_empty_changes=True)
                d = diff(got, full)
                if d:
                    V("compose-components/wrong:" + "+".join(d), f"composing the component subgraphs differs from the graph in {d}",
                      {x: {"real": got.get(x), "model": full.get(x)} for x in d})
        # ---- compose over all covers by two pieces (3^n), overlaps allowed ---------------------------------------
        if n <= 5:
            for assign in itertools.product((0, 1, 2), repeat=n):
                S1 = [a for a, t in zip(ids, assign) if t in (0, 2)]
                S2 = [a for a, t in zip(ids, assign) if t in (1, 2)]
                m1, m2 = m.subgraph(S1), m.subgraph(S2)
                # make the overlap observable: second piece carries different attribute values
                for a in m2.atoms:
                    m2.atoms[a]["z"] = 5
                exp = RG.RefGraph.compose(m.kind, [m1, m2]).observe()
                try:
                    p1 = g.subgraph(S1)
                    p2 = g.subgraph(S2)
                    for a in S2:
                        p2.set_atom_attribute(a, "z", 5)
                    before1, before2 = norm(snap(p1)), norm(snap(p2))
                    for container in (list, tuple):
                        h = type(g).compose(container([p1, p2]))
                        if norm(snap(p1)) != before1 or norm(snap(p2)) != before2:
                            which = "first" if norm(snap(p1)) != before1 else "second"
                            V("compose-cover/modified-piece", f"compose([sub{S1}, sub{S2}]) changed its {which} argument in "
                              f"{diff(norm(snap(p1)), before1) or diff(norm(snap(p2)), before2)}", inp=str(assign))
                            before1, before2 = norm(snap(p1)), norm(snap(p2))
                        out["evals"] += 1
                        out["distinct"] += 1
                        oc["compose-cover"] = oc.get("compose-cover", 0) + 1
                        got = norm(snap(h), drop_empty_changes=True)
                        d = diff(got, exp)
                        if d:
                            V("compose-cover/wrong:" + "+".join(d), f"compose([sub{S1}, sub{S2}]) differs from the labelled union in {d}",
                              {x: {"real": got.get(x), "model": exp.get(x)} for x in d}, inp=str(assign))
                        elif container is list:
                            inc = BFS.check_coherent(h, _drop_empty(RG.RefGraph.compose(m.kind, [m1, m2])), universe)
                            if inc:
                                V("compose-cover/" + inc[0][0], f"public view {inc[0][0]} of compose([sub{S1}, sub{S2}]) disagrees with "
                                  f"the labelled union", inc[0][1], inp=str(assign))
                        if type(h) is not type(g):
                            V("compose-cover/class", f"compose returned a {type(h).__name__}", inp=str(assign))
                except Exception as e:
                    V("compose-cover/raised:" + type(e).__name__, f"compose over the cover {S1},{S2} raised {e!r}", inp=str(assign))
                # the same cover with every descriptor / stereo change of the second piece replaced by another isomer over the same
                # atoms (built from the model, not derived from g): where the pieces overlap, the later piece's descriptors win,
                # in either order of the two pieces
                if m.kind in RG.STEREO:
                    m2x = _other_isomers(m2)
                    if m2x is not None:
                        for first, second, tag in ((m1, m2x, "12"), (m2x, m1, "21")):
                            expx = RG.RefGraph.compose(m.kind, [first, second]).observe()
                            try:
                                h = type(g).compose([U.build(first), U.build(second)])
                            except Exception as e:
                                V("compose-cover-isomer/raised:" + type(e).__name__, f"compose over the cover {S1},{S2} (second piece "
                                  f"with other isomers, order {tag}) raised {e!r}", inp=str(assign) + tag)
                                continue
                            out["evals"] += 1
                            out["distinct"] += 1
                            oc["compose-cover-isomer"] = oc.get("compose-cover-isomer", 0) + 1
                            got = norm(snap(h), drop_empty_changes=True)
                            d = diff(got, expx)
                            if d:
                                V("compose-cover-isomer/wrong:" + "+".join(d), f"compose of sub{S1} and sub{S2} carrying different isomers "
                                  f"on shared centres (order {tag}) differs from the labelled union with the later piece winning in {d}",
                                  {x: {"real": got.get(x), "model": expx.get(x)} for x in d}, inp=str(assign) + tag)
        # ---- compose across classes: pieces converted to every other class that can hold their content ---------------
        for S1, S2 in ([(ids[: n // 2 + 1], ids[n // 2:]), (ids, ids[:1]), (ids[-1:], ids)] if n >= 2 else []):
            for pk in (MG, SMG, CRG, SCRG):          # class of the pieces
                for tk in (MG, SMG, CRG, SCRG):      # class of the result
                    if pk == tk:
                        continue
                    m1, m2 = U.to_kind(m.subgraph(S1), pk), U.to_kind(m.subgraph(S2), pk)
                    # labelled union in the most general class, then only what the target class can hold; bond attributes
                    # (also a 'reaction' attribute) are plain attributes for the non-reaction classes and are kept
                    full = RG.RefGraph.compose(SCRG, [U.to_kind(m1, SCRG), U.to_kind(m2, SCRG)])
                    e = RG.RefGraph(tk)
                    e.atoms, e.bonds = full.atoms, full.bonds
                    if tk in RG.STEREO:
                        e.astereo, e.bstereo = full.astereo, full.bstereo
                    if tk == SCRG:
                        e.achg, e.bchg = full.achg, full.bchg
                    exp = _drop_empty(e).observe()
                    try:
                        h = U.real_cls(tk).compose([U.build(m1), U.build(m2)])
                    except Exception as e:
                        V(f"compose-mixed/{E.SHORT[pk]}->{E.SHORT[tk]}/raised:" + type(e).__name__, f"compose of {pk} pieces into {tk} raised {e!r}")
                        continue
                    out["evals"] += 1
                    out["distinct"] += 1
                    oc["compose-mixed"] = oc.get("compose-mixed", 0) + 1
                    got = norm(snap(h), drop_empty_changes=True)
                    d = diff(got, exp)
                    if d or type(h) is not U.real_cls(tk):
                        V(f"compose-mixed/{E.SHORT[pk]}->{E.SHORT[tk]}/wrong:" + "+".join(d), f"compose of {pk} pieces into {tk} differs from "
                          f"the labelled union in {d}", {x: {"real": got.get(x), "model": exp.get(x)} for x in d})
        if not out["samples"]:
            out["samples"].append({"spec": U.describe(m), "subsets": 2 ** n, "covers": 3 ** n if n <= 5 else 0})
    return out
