"""C11 - relabelling is a faithful, reversible renaming (DESIGN.md 5/C11)."""
from __future__ import annotations

import itertools
from functools import lru_cache

from ..explore import ops as OPS
from ..model import refgraph as RG
from ..snapshot import diff, norm, snap
from ..universe import graphs as U
from . import c10 as C10
from . import eqcommon as E

PROP = "C11"
RULE = ("every spec of the universes with <=5 atoms (isolated atoms, attributes, descriptors incl. placeholders, stereo changes) "
        "x every mapping with injective induced total map: all total permutations (n<=4; family above), injection into a fresh pool, "
        "all partial mappings (every subset of atoms sent to fresh ids; every pair swapped; a mapping that mentions only absent ids), "
        "a mapping onto identifiers whose Python hashes coincide (-1/-2, n/n+2^61-1); plus a 7-coordinate centre, 133-atom graphs, graphs with two / four stereo centres (8 / 12 atoms) and dienes with two stereo bonds "
        "under a reduced mapping family that includes double swaps, 4-cycles and chains a->b, b->fresh "
        "x {copy, in place}.  Oracle: (a) snapshot == reference renaming, source untouched for copy / same object returned in place; "
        "(b) copy and in-place agree; (c) relabelling back with the inverse mapping restores the snapshot; (d) differential: every "
        "single follow-up edit and ==/hash behaves on the relabelled graph exactly as on a freshly built graph with the same content.  "
        "distinct = (spec, mapping, mode) executions")
ASSUMPTIONS = ["only mappings whose induced total map on all mentioned identifiers is injective (as the property states)",
               "hash compared only for fully specified parities"]
BUDGET = {"quick": 600, "thorough": 1500}
MG, SMG, CRG, SCRG = RG.MG, RG.SMG, RG.CRG, RG.SCRG


def diene_specs():
    """0=1-2=3 with two planar bond descriptors (and the same as static descriptor + stereo change in a reaction graph)"""
    atoms = [(0, "C"), (1, "C"), (2, "C"), (3, "C"), (4, "F"), (5, "H"), (6, "Cl"), (7, "Br"), (8, "H"), (9, "I")]
    bonds = [(0, 1), (1, 2), (2, 3), (0, 4), (0, 5), (1, 6), (2, 7), (3, 8), (3, 9)]
    d1 = ("PlanarBond", (4, 5, 0, 1, 6, 2), 0)
    d2 = ("PlanarBond", (1, 7, 2, 3, 8, 9), 0)
    d2x = ("PlanarBond", (1, 7, 2, 3, 9, 8), 0)
    return [U.mk(SMG, atoms, bonds, bstereo=[d1, d2]), U.mk(SMG, atoms, bonds, bstereo=[d2, d1]),
            U.mk(SCRG, atoms, bonds, bstereo=[d1], bchg={(2, 3): {"BROKEN": d2, "FORMED": d2x}}),
            U.mk(SCRG, atoms, bonds, bchg={(0, 1): {"FLEETING": d1}, (2, 3): {"BROKEN": d2, "FORMED": d2x}})]


@lru_cache(None)
def specs(tier):
    S = []
    mg = [g for g in U.MG_reps(4, ("C", "H", "O")) if g.atoms]
    S += mg if tier == "thorough" else [g for g in mg if len(g.atoms) <= 3] + [g for g in mg if len(g.atoms) == 4][::4]
    S += [U.to_kind(g, k) for g in mg if len(g.atoms) <= 3 for k in (SMG, CRG, SCRG)][::3]
    S += [g for g in U.CRG_reps(3) if g.atoms][::(2 if tier == "quick" else 1)]
    S += [g for g in U.stars(4)]
    S += [g for g in U.stars(5) if len(g.atoms) == 6][::(4 if tier == "quick" else 1)]
    S += [g for g in U.two_unit() if len(g.atoms) <= 6]
    S += [g for g in U.scrg_universe("quick") if g.atoms][::(2 if tier == "quick" else 1)]
    # several stereo centres / several stereo bonds in one graph: a mapping may send one centre to the old label of another
    S += [g for g in U.two_unit() if len(g.atoms) == 8][::(3 if tier == "quick" else 1)]
    S += [g for g in U.two_unit() if len(g.atoms) == 12][::(2 if tier == "quick" else 1)]
    S += diene_specs()
    # a 7-coordinate centre without descriptor, graphs of 133 atoms (reduced mapping family for these)
    S += [g for g in U.hubs("quick") if g.kind in (SMG, SCRG)][:2] + [g for g in U.large("quick")]
    out = []
    for i, g in enumerate(S):
        if i % 4 == 0:
            h = g.copy()
            ids = list(h.atoms)
            h.atoms[ids[0]]["x"] = 1
            if h.bonds:
                h.bonds[next(iter(h.bonds))]["w"] = 2
            out.append(h)
        else:
            out.append(g)
    return out


COLLIDING = [-1, -2, 2 ** 61 - 1, 0, 2 ** 61 + 4, 5, -3, 2 ** 62 - 5, 2 ** 61 - 4, 7]   # hash(-1) == hash(-2), hash(n) == hash(n + 2^61 - 1)


def mappings(m, tier):
    ids = list(m.atoms)
    n = len(ids)
    out = []
    big = n > 6
    for p in E._perm_family(ids, 4 if tier == "thorough" else 3, few=big):
        if list(p) != ids:
            out.append(("total-perm", dict(zip(ids, p))))
    if n <= len(E.POOLS[0]):
        out.append(("total-pool", dict(zip(ids, E.POOLS[0]))))
    out.append(("total-shift", {a: a + 1 for a in ids}))     # chain a -> a+1: images collide with sources unless simultaneous
    # identifiers whose Python hashes coincide: the first atoms are sent to -1, -2, 2^61-1, 0, ... (the rest keeps its place,
    # shifted out of the way)
    cm = {a: (COLLIDING[i] if i < len(COLLIDING) else a + 10 ** 6) for i, a in enumerate(ids)}
    out.append(("total-colliding", cm))
    if n >= 4:
        a, b, c, d = ids[:4]
        out.append(("double-swap", {a: c, c: a, b: d, d: b}))       # exchanges two centres / two bonds together with a neighbour each
        out.append(("cycle-4", {a: b, b: c, c: d, d: a}))
        out.append(("chain-2", {a: b, b: max(ids) + 50}))           # a takes b's old label, b moves to a fresh one
    if big:
        for S in (ids[:1], ids[::2], ids[1:]):
            out.append(("partial-fresh", {a: 10 ** 5 + i for i, a in enumerate(S)}))
        for a, b in ((ids[0], ids[1]), (ids[0], ids[-1]), (ids[n // 2], ids[n // 3])):
            if a != b:
                out.append(("partial-swap", {a: b, b: a}))
    else:
        for k in range(1, n):
            for S in itertools.combinations(ids, k):
                out.append(("partial-fresh", {a: 100 + i for i, a in enumerate(S)}))
        for a, b in itertools.combinations(ids, 2):
            if n > 2:
                out.append(("partial-swap", {a: b, b: a}))
    out.append(("absent-only", {max(ids) + 500: max(ids) + 501}))
    out.append(("empty", {}))
    out.append(("with-absent", {ids[0]: max(ids) + 300, max(ids) + 500: max(ids) + 501}))
    return out


def items(tier, seed):
    n = len(specs(tier))
    nbig = 5      # the hub / large specs appended last: one item each, started first
    return [{"lo": i, "hi": i + 1, "tier": tier} for i in range(n - nbig, n)] + \
        [{"lo": lo, "hi": min(n - nbig, lo + 3), "tier": tier} for lo in range(0, n - nbig, 3)]


def _try(f):
    try:
        return ("ok", f())
    except Exception as e:
        return ("exc", type(e).__name__)


def run_item(item):
    tier = item["tier"]
    out = {"evals": 0, "distinct": 0, "outcomes": {}, "viol": [], "samples": []}
    oc = out["outcomes"]
    for m in specs(tier)[item["lo"]:item["hi"]]:
        base = norm(snap(U.build(m)))
        spec_ok = E.fully_specified(m)
        nd = {}
        for mtype, mp in mappings(m, tier):
            exp = m.copy().relabel(mp)
            eobs = exp.observe()
            inv = {v: k for k, v in mp.items()}
            results = {}

            def V(clause, what, detail=None, mode=""):
                out["viol"].append({"sig": f"C11/{E.SHORT[m.kind]}/{mtype}/{mode}/{clause}",
                                    "input": f"{U.key(m)}|{sorted(mp.items())}",
                                    "what": what + f" [relabel_atoms({mp}) of {U.describe(m)}]", "item": item, "detail": detail})

            for mode in ("copy", "inplace"):
                g = U.build(m)
                r = _try(lambda: g.relabel_atoms(dict(mp), copy=(mode == "copy")))
                out["evals"] += 1
                out["distinct"] += 1
                oc[mtype] = oc.get(mtype, 0) + 1
                if r[0] == "exc":
                    V("raised:" + r[1], f"relabel_atoms raised {r[1]}", mode=mode)
                    continue
                h = r[1]
                if mode == "copy":
                    if h is g:
                        V("copy-returned-self", "copy=True returned the original object", mode=mode)
                    if norm(snap(g)) != base:
                        V("copy-modified-source", "copy=True modified the source graph", mode=mode)
                else:
                    if h is not g:
                        V("inplace-returned-other", "copy=False did not return the object it modified", mode=mode)
                if type(h) is not type(g):
                    V("class-changed", f"result is a {type(h).__name__}", mode=mode)
                got = norm(snap(h))
                results[mode] = got
                d = diff(got, eobs)
                if d:
                    V("wrong:" + "+".join(d), f"relabelled graph differs from the reference renaming in {d}",
                      {k: {"real": got.get(k), "model": eobs.get(k)} for k in d}, mode=mode)
                    continue
                # (c) undo with the inverse mapping
                rb = _try(lambda: h.relabel_atoms(dict(inv), copy=(mode == "copy")))
                out["evals"] += 1
                if rb[0] == "exc":
                    V("inverse-raised:" + rb[1], "relabelling back with the inverse mapping raised", mode=mode)
                else:
                    back = norm(snap(rb[1]))
                    if back != base:
                        V("inverse:" + "+".join(diff(back, base)), "inverse mapping did not restore the original", mode=mode)
                # (d) differential follow-ups against a freshly built graph with the same labelled content
                if mode == "copy" and mtype not in ("partial-fresh", "total-perm"):
                    continue
                if tier == "quick":
                    nd[mtype] = nd.get(mtype, 0) + 1
                    if nd[mtype] > 4:
                        continue
                edits = C10.edits(exp)
                if len(m.atoms) > 6:     # (hub / large specs: a stride through the edit menu, at most ~25 edits)
                    edits = edits[::max(1, len(edits) // 25)]
                for op in edits + [["eq"], ["hash"], ["matrix"], ["components"], ["bonded_all"], ["str"], ["views_index"]]:
                    src0 = U.build(m)
                    hh = src0.relabel_atoms(dict(mp), copy=(mode == "copy"))
                    ff = U.build(exp)
                    ra, rf = _follow(hh, op, ff, spec_ok), _follow(ff, op, U.build(exp), spec_ok)
                    out["evals"] += 1
                    if ra[0] != rf[0] or ra[1] != rf[1]:
                        V(f"followup:{op[0]}", f"follow-up {op} behaves differently on the relabelled graph ({ra[0]}, {str(ra[1])[:80]}) "
                          f"than on a freshly built one ({rf[0]}, {str(rf[1])[:80]})", mode=mode)
                        continue
                    if norm(snap(hh)) != norm(snap(ff)):
                        V(f"followup-state:{op[0]}", f"after follow-up {op} the relabelled graph differs from the freshly built one in "
                          f"{diff(norm(snap(hh)), norm(snap(ff)))}", mode=mode)
                    if mode == "copy" and norm(snap(src0)) != base:
                        V(f"followup-changed-source:{op[0]}", f"follow-up {op} on the relabelled COPY changed the source graph in "
                          f"{diff(norm(snap(src0)), base)}", mode=mode)
            if mtype in ("total-shift", "total-pool", "partial-swap") and mp:
                # the mapping with numpy-typed values (np.arange / np.argsort), then back with the numpy-keyed inverse: the graph
                # must come back exactly (== and hash are not asked of the numpy-labelled intermediate)
                import numpy as np

                for mode in ("copy", "inplace"):
                    try:
                        g = U.build(m)
                        h = g.relabel_atoms({k: np.int64(v) for k, v in mp.items()}, copy=(mode == "copy"))
                        h2 = h.relabel_atoms({np.int64(v): k for k, v in mp.items()}, copy=(mode == "copy"))
                        out["evals"] += 1
                        oc["numpy-roundtrip"] = oc.get("numpy-roundtrip", 0) + 1
                        back = norm(snap(h2))
                        if back != base:
                            V("numpy-roundtrip:" + "+".join(diff(back, base)), "relabelling with numpy-typed values and back with the "
                              "numpy-keyed inverse did not restore the original", mode=mode)
                    except Exception as e:
                        V("numpy-roundtrip-raised:" + type(e).__name__, f"{e!r}", mode=mode)
            if len(results) == 2 and results["copy"] != results["inplace"]:
                V("copy-vs-inplace", f"copy and in-place results differ in {diff(results['copy'], results['inplace'])}")
        if not out["samples"]:
            out["samples"].append({"spec": U.describe(m), "n_mappings": len(mappings(m, tier)),
                                   "example_mapping": sorted(mappings(m, tier)[-1][1].items())})
    return out


def _cr(x):
    """order-free printable form (sets and mappings print in hash / insertion order otherwise)"""
    if isinstance(x, (set, frozenset)):
        return "{" + ", ".join(sorted(_cr(e) for e in x)) + "}"
    if hasattr(x, "items"):
        return "{" + ", ".join(sorted(f"{_cr(k)}: {_cr(v)}" for k, v in x.items())) + "}"
    return repr(x)


def _follow(g, op, other, spec_ok):
    """apply a follow-up to g; returns (status, observable result)"""
    if op[0] == "eq":
        return _try(lambda: (g == other, other == g, g == g))
    if op[0] == "hash":
        if not spec_ok:
            return ("skip", None)
        return _try(lambda: hash(g) == hash(other))
    if op[0] == "matrix":
        return _try(lambda: sorted(map(tuple, g.connectivity_matrix().tolist())))
    if op[0] == "components":
        return _try(lambda: sorted(sorted(c) for c in g.connected_components()))
    if op[0] == "bonded_all":
        return _try(lambda: sorted((a, sorted(g.bonded_to(a))) for a in g.atoms))
    if op[0] == "str":
        return _try(lambda: str(g))
    if op[0] == "views_index":
        # subscripting / .get on every public mapping view with present and absent keys must behave as on a fresh graph
        def idx():
            res = []
            keys = list(g.atoms)[:2] + [10 ** 6, frozenset((10 ** 6, 1))] + [frozenset(b) for b in list(g.bonds)[:1]]
            for v in ("atoms_with_attributes", "bonds_with_attributes", "neighbors", "atom_stereo", "bond_stereo", "stereo",
                      "atom_stereo_changes", "bond_stereo_changes"):
                if hasattr(g, v):
                    view = getattr(g, v)
                    for k in keys:
                        kn = repr(sorted(k)) if isinstance(k, frozenset) else repr(k)   # order-free name of the key
                        try:
                            res.append((v, kn, "get", _cr(view.get(k)), k in view))
                            res.append((v, kn, "[]", _cr(view[k])))
                        except Exception as e:
                            res.append((v, kn, type(e).__name__))
            return res
        return _try(idx)
    r = _try(lambda: OPS.apply_real(g, op))
    return (r[0], r[1] if r[0] == "exc" else None)
