"""C13 - RDKit export followed by import preserves structure and stereo (DESIGN.md 5/C13)."""
from __future__ import annotations

import itertools

from ..model import refgraph as RG
from ..model import refstereo as RS
from ..snapshot import norm, snap
from ..universe import graphs as U
from ..universe import rdcases as R

PROP = "C13"
RULE = ("stereo-valid StereoMolGraphs: stars of every coordination class with EVERY descriptor ordering and parity (tetrahedral 48, "
        "tetrahedral with lone pair 12, square planar 24, trigonal bipyramidal 240, octahedral 1440) in two identifier pools "
        "(1..n; scattered positive ids, permuted insertion order), two-unit graphs (two tetrahedral centres, ring centres), isolated "
        "chains of two / three directly bonded coordination centres (every class pair, the partner at every descriptor position, "
        "every parity, four atom orders), a coordination centre with a tetrahedral ligand atom, E/Z double bonds with generate_bond_orders=True (also in chains of 130 / 262 atoms with the double bond at either end of the atom order), organic molecules and delocalised ions imported from RDKit (all stereoisomers): "
        "RDMol2StereoMolGraph(use_atom_map_number=True)(g._to_rdmol()[0]) has the same atoms, elements and bonds and, for every atom "
        "centred descriptor, a spatially identical descriptor of the same class on the same atom (E/Z descriptors too when bond orders "
        "are regenerated); the export does not change the exported graph.  distinct = graphs round-tripped")
ASSUMPTIONS = ["RDKit atom-map numbers must be positive, which bounds 'arbitrary identifiers' to positive ids",
               "fully specified parities"]
BUDGET = {"quick": 600, "thorough": 1200}
SMG = RG.SMG
POOL2 = [17, 3, 250, 9, 1000, 42, 77, 5, 123, 64, 8, 31, 900, 12]


def star_cases():
    """(tag, spec) for every ordering x parity of every class"""
    out = []
    for cls, cel, n in U.STAR_CLASSES:
        els = [U.LIG[i] for i in range(n)]
        ids = list(range(1, n + 2))
        base = tuple(ids)
        if len(base) < RS.NPOS[cls]:
            base = base + (None,) * (RS.NPOS[cls] - len(base))
        npos = RS.NPOS[cls]
        for perm in itertools.permutations(range(1, npos)):
            t = (base[0],) + tuple(base[i] for i in perm)
            for p in RS.PARITIES[cls]:
                d = (cls, t, p)
                tag = cls + ("-lonepair" if None in t else "")
                out.append((tag, U.star(cls, cel, els, d, ids=ids)))
    return out


# chains of directly bonded coordination centres (metal-metal bonds): every class pair that can share a bond, and a chain of three
BONDED = [("Octahedral", "Octahedral"), ("Octahedral", "TrigonalBipyramidal"), ("TrigonalBipyramidal", "TrigonalBipyramidal"),
          ("Octahedral", "SquarePlanar"), ("SquarePlanar", "SquarePlanar"), ("SquarePlanar", "TrigonalBipyramidal"),
          ("Tetrahedral", "Octahedral"), ("Octahedral", "Octahedral", "Octahedral"), ("TrigonalBipyramidal", "Octahedral", "SquarePlanar")]
METAL = {"Octahedral": "Co", "TrigonalBipyramidal": "Fe", "SquarePlanar": "Pt", "Tetrahedral": "C"}


def bonded_centres(classes, tier):
    """specs: centres 1..k bonded in a chain, every other position a distinct one-atom ligand; the bonded centres sit at every
    position (pair: all combinations; chain of three: a stride) of each other's descriptors, every parity, four atom orders"""
    k = len(classes)
    lig = {}
    atoms = {}
    for c, cls in enumerate(classes, start=1):
        nl = RS.NPOS[cls] - 1 - ((c > 1) + (c < k))
        lig[c] = [10 * c + i for i in range(nl)]
        atoms[c] = METAL[cls]
        for i, a in enumerate(lig[c]):
            atoms[a] = U.LIG[i]
    bonds = [(c, c + 1) for c in range(1, k)] + [(c, a) for c in lig for a in lig[c]]
    choices = []
    for c, cls in enumerate(classes, start=1):
        nb = ([c - 1] if c > 1 else []) + ([c + 1] if c < k else [])
        npos = RS.NPOS[cls] - 1
        slots = list(itertools.permutations(range(npos), len(nb)))
        if k > 2:
            slots = slots[:: 3 if tier == "quick" else 1]
        ch = []
        for sl in slots:
            t = [None] * npos
            for x, pos in zip(nb, sl):
                t[pos] = x
            rest = iter(lig[c])
            t = [x if x is not None else next(rest) for x in t]
            for par in RS.PARITIES[cls]:
                ch.append((cls, (c, *t), par))
        choices.append(ch)
    allat = sorted(atoms)
    orders = (allat, allat[::-1], list(range(k, 0, -1)) + [a for c in sorted(lig, reverse=True) for a in lig[c]],
              [a for c in sorted(lig) for a in lig[c]] + list(range(1, k + 1)))
    combos = list(itertools.product(*choices))
    if k > 2:
        combos = combos[:: 7 if tier == "quick" else 1]
    for descs in combos:
        for o, aorder in enumerate(orders):
            yield o, U.mk(SMG, [(a, atoms[a]) for a in aorder], bonds if o % 2 == 0 else bonds[::-1], astereo=list(descs))


def items(tier, seed):
    cases = star_cases()
    out = []
    for lo in range(0, len(cases), 60):
        out.append({"part": "stars", "lo": lo, "hi": min(len(cases), lo + 60), "tier": tier})
    out.append({"part": "two-unit", "tier": tier})
    out.append({"part": "multi-centre", "tier": tier})
    out.append({"part": "class-sequence", "tier": tier})
    for i in range(len(BONDED)):
        out.append({"part": "bonded-centres", "idx": i, "tier": tier})
    out.append({"part": "ez", "tier": tier})
    out.append({"part": "ez-large", "tier": tier})
    for i in range(len(R.organics()) + len(R.ions())):
        out.append({"part": "organic", "idx": i, "tier": tier})
    return out


def roundtrip(m, out, item, tag, bond_orders=False, need_bond_stereo=False, real=None):
    from stereomolgraph.rdmol2graph import RDMol2StereoMolGraph

    oc = out["outcomes"]

    def V(clause, what, detail=None):
        out["viol"].append({"sig": f"C13/{tag}/{clause}", "input": U.key(m), "what": what + f" [{U.describe(m)}]",
                            "item": item, "detail": detail})

    g = U.build(m) if real is None else real      # 'real': a graph the library derived itself, with the content of m
    before = norm(snap(g))
    out["evals"] += 1
    out["distinct"] += 1
    oc[tag] = oc.get(tag, 0) + 1
    # (every other export asks for bond orders with a truthy value that is not the bool singleton: numpy.bool_, as the result of a
    #  numpy comparison would be)
    bo_arg = bond_orders
    if bond_orders and out["evals"] % 2 == 0:
        import numpy as np

        bo_arg = np.bool_(True)
    try:
        mol, _ = g._to_rdmol(generate_bond_orders=bo_arg)
    except Exception as e:
        V("export-raised:" + type(e).__name__, f"_to_rdmol raised {e!r}")
        return
    if norm(snap(g)) != before:
        V("export-modified-graph", "_to_rdmol changed the exported graph")
    try:
        h = RDMol2StereoMolGraph(use_atom_map_number=True, stereo_complete=False, lone_pair_stereo=True, resonance=False)(mol)
    except Exception as e:
        V("import-raised:" + type(e).__name__, f"import of the exported molecule raised {e!r}")
        return
    mh = U.from_real(h)
    if {a: d["atom_type"] for a, d in mh.atoms.items()} != {a: d["atom_type"] for a, d in m.atoms.items()}:
        V("atoms", "atoms / elements changed by the round trip")
        return
    if set(mh.bonds) != set(m.bonds):
        V("bonds", f"bonds changed by the round trip: {sorted(map(sorted, set(mh.bonds) ^ set(m.bonds)))}")
        return
    for c, d in m.astereo.items():
        if d[2] is None:
            continue
        d2 = mh.astereo.get(c)
        if d2 is None:
            V(f"lost:{d[0]}{'-lonepair' if None in d[1] else ''}", f"descriptor {d} on atom {c} was lost")
        elif d2[0] != d[0] or d2[2] is None or not RS.same(d, d2):
            V(f"changed:{d[0]}{'-lonepair' if None in d[1] else ''}", f"descriptor {d} on atom {c} came back as {d2}")
    if need_bond_stereo:
        for c, d in m.bstereo.items():
            if d[2] is None:
                continue
            d2 = mh.bstereo.get(c)
            if d2 is None:
                V(f"lost:{d[0]}", f"bond descriptor {d} was lost")
            elif d2[0] != d[0] or d2[2] is None or not RS.same(d, d2):
                V(f"changed:{d[0]}", f"bond descriptor {d} came back as {d2}")


def run_item(item):
    out = {"evals": 0, "distinct": 0, "outcomes": {}, "viol": [], "samples": []}
    tier = item["tier"]
    if item["part"] == "stars":
        cases = star_cases()[item["lo"]:item["hi"]]
        for tag, m in cases:
            roundtrip(m, out, item, tag)
            ids = list(m.atoms)
            m2 = m.copy().relabel(dict(zip(ids, POOL2)))
            # permuted insertion order of the atoms: identifiers, insertion index and RDKit index all differ
            order = list(m2.atoms)
            order = order[1:] + order[:1]
            m3 = RG.RefGraph(m2.kind)
            m3.atoms = {a: m2.atoms[a] for a in order}
            m3.bonds = dict(reversed(list(m2.bonds.items())))
            m3.astereo = dict(m2.astereo)
            roundtrip(m3, out, item, tag + "/scattered-ids")
        if cases and item["lo"] == 0:
            out["samples"].append({"part": "stars", "example": U.describe(cases[0][1]), "cases": len(star_cases())})
        return out
    if item["part"] == "two-unit":
        for m in U.two_unit():
            if m.bstereo or any(d[2] is None for d in m.astereo.values()):
                continue
            mm = m.copy().relabel({a: a + 1 for a in m.atoms})
            roundtrip(mm, out, item, "two-unit")
        return out
    if item["part"] == "multi-centre":
        # a coordination centre of every class one of whose ligands is itself a tetrahedral stereocentre; both insertion
        # orders (ligand carbon before / after the metal), both parities, several orderings of the metal descriptor
        for cls, cel, n in U.STAR_CLASSES:
            if cel == "N":
                continue
            npos = RS.NPOS[cls]
            for order_first in ("metal", "carbon", "substituents", "carbon-metal", "metal-subs-carbon"):
                for tp in (1, -1):
                    for mperm in list(itertools.permutations(range(1, npos)))[:: max(1, (npos - 1) * 3)]:
                        for mp in RS.PARITIES[cls]:
                            # metal 1, ligands 2..n+1 (ligand 2 is the carbon), carbon substituents 20,21,22
                            lig = list(range(2, n + 2))
                            atoms = {1: cel, 2: "C", 20: "H", 21: "F", 22: "Cl"}
                            for k, a in enumerate(lig[1:]):
                                atoms[a] = U.LIG[k + 1]
                            bonds = [(1, a) for a in lig] + [(2, 20), (2, 21), (2, 22)]
                            base = (1, *lig)
                            md = (cls, (1,) + tuple(base[i] for i in mperm), mp)
                            td = ("Tetrahedral", (2, 1, 20, 21, 22), tp)
                            if order_first == "metal":
                                aorder = [1] + lig + [20, 21, 22]
                            elif order_first == "carbon":
                                aorder = [2, 20, 21, 22, 1] + lig[1:]
                            elif order_first == "carbon-metal":
                                aorder = [2, 1, 20, 21, 22] + lig[1:]
                            elif order_first == "metal-subs-carbon":
                                aorder = [20, 1, 21] + lig[1:] + [2, 22]
                            else:
                                aorder = [22, 21, 20] + list(reversed(lig)) + [1]
                            m = U.mk(SMG, [(a, atoms[a]) for a in aorder], bonds if order_first != "substituents" else list(reversed(bonds)),
                                     astereo=[md, td])
                            roundtrip(m, out, item, f"multi-centre/{cls}/{order_first}-first")
        out["samples"].append({"part": "multi-centre"})
        return out
    if item["part"] == "bonded-centres":
        classes = BONDED[item["idx"]]
        for o, m in bonded_centres(classes, tier):
            roundtrip(m, out, item, "bonded-centres/" + "-".join(c[:3] for c in classes))
        return out
    if item["part"] == "class-sequence":
        # the same centre / ligand identifiers exported under different descriptor classes one after the other in one
        # process (module-level caches keyed too weakly), every ordering of the four ligands
        seqs = [("Tetrahedral", "C", 1), ("SquarePlanar", "Pt", 0), ("Tetrahedral", "C", -1), ("SquarePlanar", "Pt", 0),
                ("Tetrahedral", "C", 1)]
        els = [U.LIG[i] for i in range(4)]
        for perm in itertools.permutations((2, 3, 4, 5)):
            for cls, cel, par in seqs:
                m = U.star(cls, cel, els, (cls, (1, *perm), par), ids=[1, 2, 3, 4, 5])
                roundtrip(m, out, item, f"class-sequence/{cls}")
        els5 = [U.LIG[i] for i in range(5)]
        for perm in list(itertools.permutations((2, 3, 4, 5, 6)))[::5]:
            for cls, cel, par in (("TrigonalBipyramidal", "P", 1), ("TrigonalBipyramidal", "P", -1)):
                m = U.star(cls, cel, els5, (cls, (1, *perm), par), ids=[1, 2, 3, 4, 5, 6])
                roundtrip(m, out, item, f"class-sequence/{cls}")
        return out
    if item["part"] == "ez-large":
        # Cl-CH=CH-(CH2)m-H with 130 / 262 / 520 atoms, E and Z, the double bond at the end or at the beginning of the atom order:
        # RDKit indices beyond 127 / 255 / 256 take part in a bond descriptor
        for m_ch2 in ((41, 85) if tier == "quick" else (41, 85, 171)):
            for last in (True, False):
                chain = []      # (element, neighbours added later)
                atoms, bonds = [], []
                nid = [0]

                def new(el):
                    nid[0] += 1
                    atoms.append((nid[0], el))
                    return nid[0]

                def alkene():
                    c1, c2 = new("C"), new("C")
                    cl, h1, h2 = new("Cl"), new("H"), new("H")
                    bonds.extend([(c1, c2), (c1, cl), (c1, h1), (c2, h2)])
                    return c1, c2, cl, h1, h2

                def alkyl(start):
                    prev = start
                    for _ in range(m_ch2):
                        c = new("C")
                        bonds.append((prev, c))
                        for _ in range(2):
                            bonds.append((c, new("H")))
                        prev = c
                    bonds.append((prev, new("H")))

                if last:
                    first_c = new("C")
                    for _ in range(2):
                        bonds.append((first_c, new("H")))
                    alkyl(first_c)          # chain hanging on first_c; the far end is capped with H
                    c1, c2, cl, h1, h2 = alkene()
                    bonds.append((c2, first_c))
                    sub2 = first_c
                else:
                    c1, c2, cl, h1, h2 = alkene()
                    first_c = new("C")
                    bonds.append((c2, first_c))
                    for _ in range(2):
                        bonds.append((first_c, new("H")))
                    alkyl(first_c)
                    sub2 = first_c
                for t in ((cl, h1, c1, c2, h2, sub2), (cl, h1, c1, c2, sub2, h2)):
                    m = U.mk(SMG, atoms, bonds, bstereo=[("PlanarBond", t, 0)])
                    roundtrip(m, out, item, f"ez-large/{'end' if last else 'start'}", bond_orders=True, need_bond_stereo=True)
        return out
    if item["part"] == "ez":
        els = ("H", "F", "Cl", "Br", "C")
        for (x, y), (z, w) in itertools.product(itertools.combinations(els, 2), repeat=2):
            for swap in (False, True):
                for pool in (list(range(1, 20)), POOL2):
                    ids = pool[:6]
                    atoms = [(ids[0], "C"), (ids[1], "C"), (ids[2], x), (ids[3], y), (ids[4], z), (ids[5], w)]
                    bonds = [(ids[0], ids[1]), (ids[0], ids[2]), (ids[0], ids[3]), (ids[1], ids[4]), (ids[1], ids[5])]
                    extra = []
                    nxt = 6
                    # carbons as substituents carry three hydrogens so that bond-order perception sees a methyl group
                    for k, e in ((2, x), (3, y), (4, z), (5, w)):
                        if e == "C":
                            for _ in range(3):
                                hid = pool[nxt] if nxt < len(pool) else 2000 + nxt
                                atoms.append((hid, "H"))
                                bonds.append((ids[k], hid))
                                nxt += 1
                    t = (ids[2], ids[3], ids[0], ids[1], ids[5], ids[4]) if swap else (ids[2], ids[3], ids[0], ids[1], ids[4], ids[5])
                    # every spelling of the same planar arrangement (written from either end of the bond)
                    for q in sorted(RS.ROT("PlanarBond")):
                        m = U.mk(SMG, atoms, bonds, bstereo=[("PlanarBond", RS.apply(t, q), 0)])
                        roundtrip(m, out, item, "ez" + ("/scattered-ids" if pool is POOL2 else ""), bond_orders=True,
                                  need_bond_stereo=True)
        # double bonds in three-membered rings (the ring atom is a substituent of BOTH ends): 1-fluoro-2-chlorocyclopropene and
        # 3-methyl-2H-azirine (lone pair on N), every spelling; and dihydrogen next to an alkene (an H-H bond is a bond)
        cp = [(1, "C"), (2, "C"), (3, "C"), (4, "F"), (5, "Cl"), (6, "H"), (7, "H")]
        cpb = [(1, 2), (1, 3), (2, 3), (1, 4), (2, 5), (3, 6), (3, 7)]
        az = [(1, "C"), (2, "N"), (3, "C"), (4, "C"), (6, "H"), (7, "H"), (8, "H"), (9, "H"), (10, "H")]
        azb = [(1, 2), (1, 3), (2, 3), (1, 4), (3, 6), (3, 7), (4, 8), (4, 9), (4, 10)]
        for atoms_, bonds_, t in ((cp, cpb, (3, 4, 1, 2, 3, 5)), (az, azb, (3, 4, 1, 2, 3, None))):
            for q in sorted(RS.ROT("PlanarBond")):
                m = U.mk(SMG, atoms_, bonds_, bstereo=[("PlanarBond", RS.apply(t, q), 0)])
                roundtrip(m, out, item, "ez-three-ring", bond_orders=True, need_bond_stereo=True)
        h2a = [(1, "C"), (2, "C"), (3, "F"), (4, "H"), (5, "Cl"), (6, "H"), (20, "H"), (21, "H")]
        h2b = [(1, 2), (1, 3), (1, 4), (2, 5), (2, 6), (20, 21)]
        for t in ((3, 4, 1, 2, 5, 6), (3, 4, 1, 2, 6, 5)):
            for bo in (False, True):
                roundtrip(U.mk(SMG, h2a, h2b, bstereo=[("PlanarBond", t, 0)]), out, item, "ez+dihydrogen", bond_orders=bo, need_bond_stereo=bo)
        roundtrip(U.mk(SMG, [(1, "H"), (2, "H")], [(1, 2)]), out, item, "dihydrogen")
        # an open-shell molecule keeps its isolated double bond: CH3-CH=CH-CH2-CH2(.) (the radical centre is not allylic), E and Z,
        # with the radical carbon early and late in the atom order
        for first in (False, True):
            a = [(1, "C"), (2, "C"), (3, "H"), (4, "C"), (5, "H"), (6, "C"), (7, "H"), (8, "H"), (9, "H"), (10, "H"), (11, "H"), (12, "C"),
                 (13, "H"), (14, "H")]
            b = [(1, 2), (1, 3), (1, 4), (2, 5), (2, 6), (4, 7), (4, 8), (4, 9), (6, 10), (6, 11), (6, 12), (12, 13), (12, 14)]
            if first:
                a = a[11:] + a[:11]
            for t in ((3, 4, 1, 2, 5, 6), (3, 4, 1, 2, 6, 5)):
                m = U.mk(SMG, a, b, bstereo=[("PlanarBond", t, 0)])
                roundtrip(m, out, item, "ez-radical", bond_orders=True, need_bond_stereo=True)
        # imines X(Y)C=N-Z with the nitrogen lone pair as placeholder, every spelling (placeholder at position 0/1/4/5)
        for (x, y) in itertools.combinations(("H", "F", "Cl", "C"), 2):
            for z in ("H", "F", "C"):
                for swap in (False, True):
                    pool = list(range(1, 30))
                    ids = pool[:5]
                    atoms = [(ids[0], "C"), (ids[1], "N"), (ids[2], x), (ids[3], y), (ids[4], z)]
                    bonds = [(ids[0], ids[1]), (ids[0], ids[2]), (ids[0], ids[3]), (ids[1], ids[4])]
                    nxt = 5
                    for k, e in ((2, x), (3, y), (4, z)):
                        if e == "C":
                            for _ in range(3):
                                atoms.append((pool[nxt], "H"))
                                bonds.append((ids[k], pool[nxt]))
                                nxt += 1
                    t = (ids[2], ids[3], ids[0], ids[1], None, ids[4]) if swap else (ids[2], ids[3], ids[0], ids[1], ids[4], None)
                    for q in sorted(RS.ROT("PlanarBond")):
                        m = U.mk(SMG, atoms, bonds, bstereo=[("PlanarBond", RS.apply(t, q), 0)])
                        roundtrip(m, out, item, "ez-imine", bond_orders=True, need_bond_stereo=True)
        # diazenes X-N=N-Y: a lone pair on both ends, every spelling
        for x in ("H", "F", "C"):
            for y in ("H", "Cl", "C"):
                for swap in (False, True):
                    pool = list(range(1, 30))
                    ids = pool[:4]
                    atoms = [(ids[0], "N"), (ids[1], "N"), (ids[2], x), (ids[3], y)]
                    bonds = [(ids[0], ids[1]), (ids[0], ids[2]), (ids[1], ids[3])]
                    nxt = 4
                    for k, e in ((2, x), (3, y)):
                        if e == "C":
                            for _ in range(3):
                                atoms.append((pool[nxt], "H"))
                                bonds.append((ids[k], pool[nxt]))
                                nxt += 1
                    t = (ids[2], None, ids[0], ids[1], None, ids[3]) if swap else (ids[2], None, ids[0], ids[1], ids[3], None)
                    for q in sorted(RS.ROT("PlanarBond")):
                        m = U.mk(SMG, atoms, bonds, bstereo=[("PlanarBond", RS.apply(t, q), 0)])
                        roundtrip(m, out, item, "ez-diazene", bond_orders=True, need_bond_stereo=True)
        # the exported graph is itself derived: a subgraph (given in reversed atom order) of a larger graph, and a relabelled copy
        for (x, y), (z, w) in itertools.product((("H", "F"), ("F", "Cl")), (("H", "Cl"), ("H", "F"))):
            ids = [3, 8, 1, 6, 4, 9]
            atoms = [(ids[0], "C"), (ids[1], "C"), (ids[2], x), (ids[3], y), (ids[4], z), (ids[5], w), (20, "O"), (21, "H"), (22, "H")]
            bonds = [(ids[0], ids[1]), (ids[0], ids[2]), (ids[0], ids[3]), (ids[1], ids[4]), (ids[1], ids[5]), (20, 21), (20, 22)]
            big = U.mk(SMG, atoms, bonds, bstereo=[("PlanarBond", (ids[2], ids[3], ids[0], ids[1], ids[4], ids[5]), 0)])
            for order in (list(reversed(ids)), [ids[5], ids[0], ids[3], ids[1], ids[2], ids[4]]):
                g = U.build(big).subgraph(order)
                roundtrip(big.subgraph(ids), out, item, "ez-derived-subgraph", bond_orders=True, need_bond_stereo=True, real=g)
            g = U.build(big.subgraph(ids)).relabel_atoms({a: a + 30 for a in ids}, copy=True)
            roundtrip(big.subgraph(ids).relabel({a: a + 30 for a in ids}), out, item, "ez-derived-relabel", bond_orders=True,
                      need_bond_stereo=True, real=g)
        out["samples"].append({"part": "E/Z with regenerated bond orders"})
        return out
    # organic molecules imported from RDKit, then exported and imported again
    from rdkit import Chem
    from stereomolgraph.rdmol2graph import RDMol2StereoMolGraph

    smi = (R.organics() + R.ions())[item["idx"]]
    for can, iso in R.stereoisomers(smi).items():
        mol = Chem.AddHs(iso)
        for a in mol.GetAtoms():
            a.SetAtomMapNum(a.GetIdx() + 1)
        try:
            g = RDMol2StereoMolGraph(use_atom_map_number=True, stereo_complete=True, lone_pair_stereo=True, resonance=False)(mol)
        except Exception:
            continue
        m = U.from_real(g)
        # keep only what the property speaks of: atom centred descriptors (+ isolated double bonds when bond orders are regenerated)
        roundtrip(m, out, item, "organic")
    out["samples"].append({"part": "organic", "smiles": smi})
    return out
