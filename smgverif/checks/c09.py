"""C09 - any editing history leaves a coherent graph (explicit-state explorer, DESIGN.md 3 and 5/C09)."""
from ..explore import bfs
from ..model import refgraph as RG

PROP = "C09"
MODE = "C09"
RULE = ("breadth-first search over histories of public editing calls on the real classes (ids {0,1,2}[,3], one "
        "never-added id 9, relabel target 5); every transition executes the real method on a fresh replay of the "
        "history in lock-step with a dict-based reference model; states deduplicated on the raw private containers "
        "incl. container types; invariant (all public views vs model) on every generated successor; read-only "
        "queries are self-loop transitions that must not change any view. distinct = deduplicated states")
ASSUMPTIONS = [
    "identifier universe of 3 (MolGraph, CondensedReactionGraph) or 4 (stereo classes) atoms, elements {C,H}",
    "pass A merges states that differ only in insertion order (order-sensitive view clauses are still evaluated on "
    "every generated successor); pass B (ordered canon) is depth-bounded",
    "a missing/empty neighbour entry of an existing isolated atom is not a view disagreement",
    "well-formedness rules of DESIGN.md 4.3; non-injective relabelling is not generated",
    "besides the empty graph the search starts from fixed non-initial roots (role-carrying bonds; four-atom skeleton; skeleton with "
    "atom+bond descriptors; skeleton with stereo changes), each explored to its own depth bound",
    "a second identifier universe whose Python hashes collide (-1, -2, 2^61-1, 0; relabel target and never-added ids collide with "
    "them) is searched two levels less deep and walked by every third deep history",
    "deep histories: a fixed family of long (600 / 3000 step) alphabet cycles with coprime strides on one live object",
]
BUDGET = {"quick": 900, "thorough": 3600}
EXHAUSTIVE = False   # complete up to the stated depth bound per class and pass, but no fixpoint is reached
PLAN = {
    # kind: (passA depth quick, passA depth thorough, passB depth quick, passB depth thorough)
    RG.MG: (8, 11, 4, 5),
    RG.CRG: (6, 7, 3, 4),
    RG.SMG: (6, 7, 3, 4),
    RG.SCRG: (5, 6, 3, 4),
}
# BFS depth from the non-initial roots of bfs.roots() (quick, thorough)
ROOT_DEPTH = {RG.CRG: (3, 4), RG.SMG: (3, 4), RG.SCRG: (3, 4)}


def drive(ctx):
    tier = ctx.tier
    allstats = []
    # thorough: the complete quick plan first (so that a budget cap can only cut the extra depth), then the deeper plan
    for t in (("quick", "thorough") if tier == "thorough" else ("quick",)):
        for kind, (aq, at, bq, bt) in PLAN.items():
            da, db = (aq, bq) if t == "quick" else (at, bt)
            allstats.append(bfs.explore(ctx, kind, MODE, da, False, tier, label=f"{kind}/A/{t}-plan"))
            allstats.append(bfs.explore(ctx, kind, MODE, db, True, tier, label=f"{kind}/B/{t}-plan"))
        for kind, (rq, rt) in ROOT_DEPTH.items():
            for name, hist in bfs.roots(kind):
                allstats.append(bfs.explore(ctx, kind, MODE, rq if t == "quick" else rt, False, tier,
                                            label=f"{kind}/A/root:{name}/{t}-plan", root=hist))
        if t == "quick":
            # the same searches over identifiers whose Python hashes coincide (present atoms with each other, with the relabelling
            # target and with the never-added identifiers), two levels less deep
            for kind, (aq, at_, bq, bt) in PLAN.items():
                allstats.append(bfs.explore(ctx, kind, MODE, max(2, aq - 2), False, tier, label=f"{kind}/A/colliding-ids", idset="colliding"))
            for kind, (rq, rt) in ROOT_DEPTH.items():
                for name, hist in bfs.roots(kind, "colliding"):
                    allstats.append(bfs.explore(ctx, kind, MODE, max(1, rq - 1), False, tier,
                                                label=f"{kind}/A/root:{name}/colliding-ids", root=hist, idset="colliding"))
            deep = [it for kind in PLAN for it in bfs.deep_items(kind, MODE, tier)]
            ctx.pmap(bfs.deep_walk, deep)
            allstats.append({"deep_histories": len(deep), "length_bound": deep[0]["len"]})
    ctx.extra["exploration"] = allstats
    ctx.extra["exhaustive_within_depth_bound"] = not ctx.capped
    ctx.distinct = ctx.states


replay_item = bfs.replay_item
