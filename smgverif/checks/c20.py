"""C20 - XYZ text round-trips and distance connectivity is well-formed (DESIGN.md 5/C20)."""
from __future__ import annotations

import itertools

import numpy as np

from ..model.elements import SYM, Z
from ..universe import geom as G

PROP = "C20"
RULE = ("round trip xyz_str -> from_xyz (and through a UTF-8 file -> from_xyz_file) for n in {1,2,3,7,40,100,1000,1001} (thorough: also 99, 101, 999, 9999, 10000, 10001) atoms, all 118 elements cycled through the positions, every "
        "coordinate from a value grid (0, -0, +-1e-9, +-4.9e-9, +-5.1e-9, +-0.123456789, +-1, +-12345.678901234, +-999999.99999999, "
        "+-1e6; full product for one atom, Latin-square covering above), 9 comment lines incl. None, empty, numeric-looking, "
        "unicode, tabs, 200 characters, braces / percent signs / shell characters: elements identical, |delta| <= 0.5e-8 (+1 ulp).  Connectivity: all 118x118 element pairs "
        "at distance cutoff*(1 -+ 1e-6), cutoff*(1 -+ 0.02), 0 (coincident atoms) and cutoff*1e-9 in a seed-derived direction, via the matrix API, the scalar API (also exactly at the cut-off and one ulp below it) and "
        "MolGraph.from_geometry: symmetric, zero diagonal, bond iff d < 1.2(r1+r2) recomputed from the radii table; the "
        "repository's XYZ files and the C07 templates under rigid motions and atom permutations.  distinct = cases")
ASSUMPTIONS = ["comment lines are single lines", "the covalent radii table is data of the library and is read, not re-derived",
               "rigid-motion part restricted to geometries whose distances are >= 2% away from every cut-off"]
BUDGET = {"quick": 600, "thorough": 900}

VALS = [0.0, -0.0, 1e-9, -1e-9, 4.9e-9, -4.9e-9, 5.1e-9, -5.1e-9, 0.123456789, -0.123456789, 1.0, -1.0, 12345.678901234,
        -12345.678901234, 999999.99999999, -999999.99999999, 1e6, -1e6, 1.00000000499, 2.5e-8, 123.000000005]
COMMENTS = [None, "", " ", "#x", "H 0 0 0", "3", "café αβ →", "x" * 200, "a\tb\tc", "  leading and trailing  ",
            "1.0 2.0 3.0 4.0",
            # characters that str.splitlines() treats as line boundaries but that do not end a line of an XYZ file
            "step 3\x0cH 0.0 0.0 0.0", "a\x0bb", "a\x1cb\x1dc\x1ed", "a\x85b", "a\u2028b\u2029c", "a\rb",
            # characters with a meaning for str.format / % / f-strings / shells
            "props={'E': -40.5}", "{}", "{0} {1}", "set = {", "}", "{{x}}", "100% %s %d %%", "$HOME `x` \\n"]


def items(tier, seed):
    out = [{"part": "rt1", "tier": tier, "seed": seed}]
    for n in ((2, 3, 7, 40, 100, 1000, 1001) if tier == "quick" else (2, 3, 7, 40, 99, 100, 101, 999, 1000, 1001, 9999, 10000, 10001)):
        out.append({"part": "rtn", "n": n, "tier": tier, "seed": seed})
    for lo in range(1, 119, 10):
        out.append({"part": "pairs", "lo": lo, "hi": min(119, lo + 10), "tier": tier, "seed": seed})
    out.append({"part": "motion", "tier": tier, "seed": seed})
    return out


def _rt(els, xyz, comment, out, item, tag):
    from stereomolgraph.coords import Geometry

    def V(clause, what):
        out["viol"].append({"sig": f"C20/roundtrip/{tag}/{clause}", "input": f"n={len(els)}|{comment!r}|{els[:3]}|{np.asarray(xyz)[:1].tolist()}",
                            "what": what + f" [n={len(els)} comment={comment!r} first={els[0]} {np.asarray(xyz)[0].tolist()}]",
                            "item": item, "detail": None})

    out["evals"] += 1
    out["distinct"] += 1
    try:
        g = Geometry(list(els), np.array(xyz, dtype=float))
        txt = g.xyz_str(comment) if comment is not None else g.xyz_str()
    except Exception as e:
        V("write-raised:" + type(e).__name__, f"xyz_str raised {e!r}")
        return
    lines = txt.split("\n")
    if lines[0].strip() != str(len(els)):
        V("count-line", f"first line is {lines[0]!r}")
    try:
        h = Geometry.from_xyz(txt)
    except Exception as e:
        V("read-raised:" + type(e).__name__, f"from_xyz raised {e!r}")
        return
    if [int(t) for t in h.atom_types] != [Z[e] for e in els]:
        V("elements", f"elements changed: {[SYM[int(t)] for t in h.atom_types][:5]}")
        return
    if comment is None or "\r" not in comment:
        # the file route (from_xyz_file) must read the same text the same way; the file is written as UTF-8 without newline
        # translation, vcheck pins PYTHONUTF8=1 so that the default encoding does not depend on the locale.  (A bare carriage
        # return inside a comment is a line break for a text-mode file and is left to the string route.)
        import os
        import tempfile

        fd, path = tempfile.mkstemp(suffix=".xyz")
        try:
            with os.fdopen(fd, "w", encoding="utf-8", newline="") as f:
                f.write(txt)
            hf = Geometry.from_xyz_file(path)
            if [int(t) for t in hf.atom_types] != [int(t) for t in h.atom_types] or not np.array_equal(np.asarray(hf.coords), np.asarray(h.coords)):
                V("file-route-differs", "from_xyz_file reads the written text differently from from_xyz")
        except Exception as e:
            V("file-route-raised:" + type(e).__name__, f"from_xyz_file raised {e!r} for a text that from_xyz reads")
        finally:
            os.unlink(path)
    a = np.array(xyz, dtype=float)
    b = np.asarray(h.coords)
    if b.shape != a.shape:
        V("shape", f"coords shape {b.shape}")
        return
    tol = 0.5e-8 + 4 * np.spacing(np.abs(a))
    if not np.all(np.abs(a - b) <= tol):
        i = np.argwhere(np.abs(a - b) > tol)[0]
        V("precision", f"coordinate {a[tuple(i)]!r} came back as {b[tuple(i)]!r}")


def run_item(item):
    out = {"evals": 0, "distinct": 0, "outcomes": {}, "viol": [], "samples": []}
    oc = out["outcomes"]
    seed = item["seed"]
    if item["part"] == "rt1":
        k = 0
        syms = [SYM[i] for i in range(1, 119)]
        for x, y, z in itertools.product(VALS, repeat=3):
            el = syms[k % 118]
            c = COMMENTS[k % len(COMMENTS)]
            k += 1
            _rt([el], [[x, y, z]], c, out, item, "n1")
        for el in syms:
            for c in COMMENTS:
                _rt([el], [[0.5, -1.25, 3.0]], c, out, item, "n1")
        oc["roundtrips-n1"] = out["evals"]
        out["samples"].append({"part": "one atom", "values": VALS[:6], "comments": [repr(c)[:20] for c in COMMENTS]})
        return out
    if item["part"] == "rtn":
        n = item["n"]
        syms = [SYM[i] for i in range(1, 119)]
        L = len(VALS)
        for shift in range(L if n <= 101 else 4):     # (atom counts with 3, 4, 5 digits: fewer value shifts)
            for cidx, c in enumerate(COMMENTS if shift % 3 == 0 else COMMENTS[:2]):
                els = [syms[(shift * 7 + i * 5 + cidx) % 118] for i in range(n)]
                xyz = [[VALS[(shift + i) % L], VALS[(2 * shift + 3 * i + 1) % L], VALS[(5 * shift + i * i + 2) % L]] for i in range(n)]
                _rt(els, xyz, c, out, item, f"n{n}")
        oc[f"roundtrips-n{n}"] = out["evals"]
        return out
    if item["part"] == "pairs":
        return _pairs(item, out)
    return _motion(item, out)


def _pairs(item, out):
    from stereomolgraph import MolGraph
    from stereomolgraph.coords import BondsFromDistance, Geometry

    oc = out["outcomes"]
    seed = item["seed"]
    rng = np.random.RandomState(1234 + seed)
    u = rng.normal(size=3)
    u /= np.linalg.norm(u)
    origins = [rng.uniform(-5, 5, size=3), np.array([1e6, 1e6, 1e6]) - rng.uniform(0, 1, size=3),
               np.array([-9.9e5, 7.3e5, 1.0e5])]
    bfd = BondsFromDistance()
    for z1 in range(item["lo"], item["hi"]):
        for z2 in range(1, 119):
            c = G.cutoff(z1, z2)
            # (factor 0: two different atoms at exactly the same position - a shared crystal site, superimposed fragments - are
            #  closer than any cut-off and therefore bonded; only an atom and itself are not)
            for f, exp in ((1 - 1e-6, 1), (1 + 1e-6, 0), (0.98, 1), (1.02, 0), (0.5, 1), (3.0, 0), (0.0, 1), (1e-9, 1)):
                d = c * f
                # near the origin and translated by ~1e6 (float64 keeps ~1e-10 A there; the 1e-6 relative margin is far above)
                origin = origins[(z1 + z2 + int(f * 10)) % 3] if f in (1 - 1e-6, 1 + 1e-6) else origins[0]
                xyz = np.array([origin, origin + u * d])
                if abs(np.linalg.norm(xyz[1] - xyz[0]) - d) > 1e-8:
                    continue
                out["evals"] += 1
                out["distinct"] += 1
                key = "bonded" if exp else "not-bonded"
                oc[key] = oc.get(key, 0) + 1

                def V(clause, what):
                    out["viol"].append({"sig": f"C20/connectivity/{clause}", "input": f"{SYM[z1]}-{SYM[z2]}|{f}",
                                        "what": what + f" [{SYM[z1]}-{SYM[z2]} at {f} x cutoff {c:.4f}]", "item": item, "detail": None})
                try:
                    M = np.asarray(bfd.array(xyz, [z1, z2]))
                    M2 = np.asarray(BondsFromDistance().array(xyz[::-1], [SYM[z2], SYM[z1]]))
                except Exception as e:
                    V("array-raised:" + type(e).__name__, f"BondsFromDistance.array raised {e!r}")
                    continue
                if M.shape != (2, 2) or M[0, 0] != 0 or M[1, 1] != 0:
                    V("diagonal", f"matrix {M.tolist()} has a self bond")
                if M[0, 1] != M[1, 0]:
                    V("asymmetric", f"matrix {M.tolist()} is not symmetric")
                if int(M[0, 1]) != exp:
                    V("threshold-array", f"matrix says {int(M[0, 1])}, expected {exp}")
                if M2[0, 1] != M[0, 1] or M2[1, 0] != M[0, 1]:
                    V("order-dependent", f"swapping the two atoms changes the answer {M.tolist()} vs {M2.tolist()}")
                if f == 0.98:
                    # the scalar entry point exactly AT the threshold: 'below' excludes equality.  The threshold 1.2 x (r1 + r2) has
                    # two natural floating-point evaluations; a distance equal to the larger one is not below either of them, the
                    # largest float below the smaller one is below both
                    r = G.radii()
                    cands = ((r[z1] + r[z2]) * 1.2, 1.2 * r[z1] + 1.2 * r[z2])
                    hi, lo = max(cands), float(np.nextafter(min(cands), 0.0))
                    out["evals"] += 2
                    try:
                        if int(bfd(hi, (z1, z2))) != 0:
                            V("threshold-scalar-equal", f"scalar API bonds the pair at a distance of exactly the cut-off {hi!r}")
                        if int(bfd(lo, (z1, z2))) != 1:
                            V("threshold-scalar-below", f"scalar API does not bond the pair one ulp below the cut-off ({lo!r})")
                        xe = np.array([[0.0, 0.0, 0.0], [hi, 0.0, 0.0]])
                        if float(np.linalg.norm(xe[1] - xe[0])) == hi and int(np.asarray(bfd.array(xe, [z1, z2]))[0, 1]) != 0:
                            V("threshold-array-equal", f"matrix API bonds the pair at a distance of exactly the cut-off {hi!r}")
                    except Exception as e:
                        V("scalar-raised:" + type(e).__name__, f"{e!r}")
                if f in (0.98, 1.02):
                    try:
                        s = bfd(float(np.linalg.norm(xyz[1] - xyz[0])), (z1, z2))
                        if int(s) != exp:
                            V("threshold-scalar", f"scalar API says {s}, expected {exp}")
                        g = MolGraph.from_geometry(Geometry([z1, z2], xyz))
                        if g.has_bond(0, 1) != bool(exp) or len(g.bonds) != exp:
                            V("threshold-graph", f"from_geometry bonds {list(map(sorted, g.bonds))}, expected {exp}")
                    except Exception as e:
                        V("scalar-raised:" + type(e).__name__, f"{e!r}")
    return out


def _motion(item, out):
    from stereomolgraph import MolGraph
    from stereomolgraph.coords import BondsFromDistance, Geometry

    oc = out["outcomes"]
    seed, tier = item["seed"], item["tier"]
    src = {}
    for k, (els, xyz, kind) in G.templates().items():
        src["T:" + k] = (els, xyz)
    for k, v in G.repo_xyz().items():
        src["F:" + k] = v
    for name, (els, xyz) in src.items():
        z = [Z[e] for e in els]
        n = len(els)
        nb, D = G.neighbours(els, xyz)
        # harness-side expected matrix
        E = np.zeros((n, n), dtype=int)
        guard = True
        for i in range(n):
            for j in range(i + 1, n):
                c = G.cutoff(z[i], z[j])
                if abs(D[i, j] - c) < 0.02 * c:
                    guard = False
                if D[i, j] < c:
                    E[i, j] = E[j, i] = 1
        if not guard:
            oc["skipped-on-threshold"] = oc.get("skipped-on-threshold", 0) + 1
            continue

        def V(clause, what):
            out["viol"].append({"sig": f"C20/connectivity-motion/{clause}", "input": name, "what": what + f" [{name}]",
                                "item": item, "detail": None})

        perms = [tuple(range(n)), tuple(reversed(range(n)))] + [tuple(list(range(k, n)) + list(range(k))) for k in range(1, min(n, 6))]
        for i, j in list(itertools.combinations(range(n), 2))[: (40 if tier == "quick" else 400)]:
            p = list(range(n))
            p[i], p[j] = p[j], p[i]
            perms.append(tuple(p))
        Ms = [(np.eye(3), np.zeros(3))] + [(C @ G.generic_rotation(seed), G.translation(seed)) for C in G.cube_rotations()[:(6 if tier == "quick" else 24)]] \
            + [(F, G.translation(seed, 3)) for F in G.REFLECTIONS]
        for pi in perms:
            for R, t in (Ms if pi == perms[0] else Ms[:3]):
                x = (xyz @ R.T + t)[list(pi)]
                e = [els[k] for k in pi]
                out["evals"] += 1
                out["distinct"] += 1
                try:
                    M = np.asarray(BondsFromDistance().array(x, e))
                    g = MolGraph.from_geometry(Geometry(e, x))
                except Exception as ex:
                    V("raised:" + type(ex).__name__, f"{ex!r}")
                    continue
                Ep = E[np.ix_(list(pi), list(pi))]
                if not np.array_equal(M, M.T) or np.any(np.diag(M) != 0):
                    V("malformed", "connectivity matrix not symmetric / has self bonds")
                if not np.array_equal(M, Ep):
                    V("changed", f"connectivity changed under permutation {pi} / rigid motion")
                gb = {frozenset(b) for b in g.bonds}
                eb = {frozenset((a, b)) for a in range(n) for b in range(a + 1, n) if Ep[a, b]}
                if gb != eb or [int(t) for t in g.atom_types] != [Z[s] for s in e]:
                    V("graph-changed", f"MolGraph.from_geometry differs from the expected connectivity under permutation {pi}")
        oc["geometries"] = oc.get("geometries", 0) + 1
    out["samples"].append({"part": "motion", "sources": len(src)})
    return out
