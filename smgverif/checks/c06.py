"""C06 - enantiomer() is the mirror image (DESIGN.md 5/C06)."""
from __future__ import annotations

from ..model import refgraph as RG
from ..model import refiso as RI
from ..model import refstereo as RS
from ..snapshot import norm, snap
from ..universe import graphs as U
from . import eqcommon as E

PROP = "C06"
RULE = ("every StereoMolGraph / StereoCondensedReactionGraph spec of the universes (stars of every class with every stereoisomer, "
        "lone pairs and unspecified parity; a seven-coordinate centre with two stereogenic arms (meso and chiral); a Pt/C cage whose centres have ring neighbours only; two "
        "chirality axes written as mirror images by ligand order; two-unit graphs incl. meso, E/Z and axis-only; stereo reaction graphs with every "
        "combination of change kinds on atoms and bonds), each also with atom/bond attributes: (a) enantiomer() equals the reference "
        "mirror (every chiral descriptor replaced by a spatially mirrored one, everything else identical), original untouched, "
        "applying it twice restores the original; (b) g == g.enantiomer() iff the brute-force oracle finds an isomorphism onto the "
        "mirror image.  distinct = specs")
ASSUMPTIONS = ["descriptor comparison up to refstereo spatial identity", "semantic clause (b) on fully specified graphs only"]
BUDGET = {"quick": 600, "thorough": 900}
SMG, SCRG = RG.SMG, RG.SCRG


def specs(tier):
    S = []
    S += list(U.stars(6))
    S += list(U.two_unit())
    S += [g for g in U.scrg_universe("quick" if tier == "quick" else "thorough")]
    S += [U.to_kind(g, SCRG) for g in U.stars(5)][::3]
    S += [U.to_kind(g, SCRG) for g in U.two_unit()][::2]
    S += [g for _, g in U.symmetric() if g.kind == SMG]
    S += list(U.hub_arms())
    S += list(U.cages())
    S += list(U.stars_extra())
    S += [U.to_kind(g, SCRG) for g in U.stars_extra()][::2]
    out = []
    for i, g in enumerate(S):
        out.append(g)
        if i % 3 == 0 and g.atoms and g.bonds:
            h = g.copy()
            a0 = next(iter(h.atoms))
            h.atoms[a0]["x"] = 7
            h.bonds[next(iter(h.bonds))]["w"] = "z"
            out.append(h)
    return out


def items(tier, seed):
    n = len(specs(tier))
    return [{"lo": lo, "hi": min(n, lo + 25), "tier": tier} for lo in range(0, n, 25)]


def _desc_equal_maps(a, b):
    """two {centre: desc} maps equal up to spatial identity (exact for unspecified parity)"""
    if set(a) != set(b):
        return False
    for c in a:
        d1, d2 = a[c], b[c]
        if d1[2] is None or d2[2] is None:
            if not (d1[0] == d2[0] and d1[2] == d2[2] and sorted(map(repr, d1[1])) == sorted(map(repr, d2[1]))):
                return False
        elif not RS.same(d1, d2):
            return False
    return True


def same_graph(m1, m2):
    """identical atoms/bonds/attributes and descriptor maps equal up to spatial identity; returns list of differing fields"""
    bad = []
    if m1.kind != m2.kind:
        bad.append("class")
    if m1.atoms != m2.atoms:
        bad.append("atoms")
    if m1.bonds != m2.bonds:
        bad.append("bonds")
    if not _desc_equal_maps(m1.astereo, m2.astereo):
        bad.append("atom_stereo")
    if not _desc_equal_maps(m1.bstereo, m2.bstereo):
        bad.append("bond_stereo")
    for name in ("achg", "bchg"):
        s1, s2 = getattr(m1, name), getattr(m2, name)
        s1 = {c: kd for c, kd in s1.items() if kd}
        s2 = {c: kd for c, kd in s2.items() if kd}
        if set(s1) != set(s2) or any(set(s1[c]) != set(s2[c]) for c in s1):
            bad.append(name)
            continue
        for c in s1:
            if not _desc_equal_maps(s1[c], s2[c]):
                bad.append(name)
                break
    return bad


def run_item(item):
    out = {"evals": 0, "distinct": 0, "outcomes": {}, "viol": [], "samples": []}
    oc = out["outcomes"]
    for m in specs(item["tier"])[item["lo"]:item["hi"]]:
        out["distinct"] += 1

        def V(clause, what, detail=None):
            has = sorted({d[0] for d in list(m.astereo.values()) + list(m.bstereo.values())} |
                         {"chg:" + d[0] for s in (m.achg, m.bchg) for kd in s.values() for d in kd.values()})
            out["viol"].append({"sig": f"C06/{E.SHORT[m.kind]}/{clause}/{'+'.join(has) or 'none'}",
                                "input": U.key(m), "what": what + f" for {U.describe(m)}",
                                "item": item, "detail": detail})

        g = U.build(m)
        before = norm(snap(g))
        try:
            e = g.enantiomer()
        except Exception as ex:
            V("raised:" + type(ex).__name__, f"enantiomer() raised {ex!r}")
            continue
        out["evals"] += 1
        if norm(snap(g)) != before:
            V("modified-original", "enantiomer() modified the original graph")
        if e is g:
            V("returned-self", "enantiomer() returned the original object")
        me = U.from_real(e)
        mir = m.mirror()
        bad = same_graph(me, mir)
        if bad:
            V("not-mirror:" + "+".join(bad), f"enantiomer() differs from the mirror image in {bad}",
              {"got": U.describe(me), "mirror": U.describe(mir)})
        try:
            ee = e.enantiomer()
            bad2 = same_graph(U.from_real(ee), m)
            if bad2:
                V("twice:" + "+".join(bad2), f"enantiomer().enantiomer() differs from the original in {bad2}")
        except Exception as ex:
            V("twice-raised:" + type(ex).__name__, f"second enantiomer() raised {ex!r}")
        out["evals"] += 1
        if E.fully_specified(m):
            exp = RI.isomorphic(m, mir, roles=True, stereo=True, changes=True)
            try:
                got = (g == e)
                got2 = (e == g)
            except Exception as ex:
                got = got2 = "EXC:" + type(ex).__name__
            out["evals"] += 2
            oc["achiral" if exp else "chiral"] = oc.get("achiral" if exp else "chiral", 0) + 1
            if got is not exp or got2 is not exp:
                V("eq-" + ("missed" if exp else "false-equal"),
                  f"g == g.enantiomer() is {got}/{got2}; an isomorphism onto the mirror image {'exists' if exp else 'does not exist'}")
        # the same graph with numpy-typed descriptor values (identifiers from an index array, parity as coords.handedness()
        # returns it): enantiomer() must give the same mirror image
        if m.astereo or m.bstereo or m.achg or m.bchg:
            out["evals"] += 1
            try:
                en = U.build(m, np_values=True).enantiomer()
                badn = same_graph(U.plain(U.from_real(en)), mir)
                if badn:
                    V("numpy-typed-not-mirror:" + "+".join(badn), f"enantiomer() of the graph built with numpy-typed descriptor values "
                                                                   f"differs from the mirror image in {badn}")
            except Exception as ex:
                V("numpy-typed-raised:" + type(ex).__name__, f"enantiomer() raised {ex!r} for numpy-typed descriptor values")
        if not out["samples"]:
            out["samples"].append({"spec": U.describe(m), "mirror": U.describe(mir)})
    return out
