"""C01 - equality never misses: renamed / re-ordered / re-expressed graphs compare equal (DESIGN.md 5/C01)."""
from __future__ import annotations

from ..universe import graphs as U
from . import eqcommon as E
from . import histories as H

PROP = "C01"
RULE = ("every spec of the bounded universes (all iso classes of MolGraph n<=4 over {C,H,O}, reaction graphs n<=3 with "
        "every role assignment, stereo stars of every class with every stereoisomer / unspecified parity / lone pair, "
        "two-unit skeletons, stereo reaction graphs with all change-kind combinations, symmetric graphs up to 14 atoms) "
        "x every variant that denotes the same graph by construction: all id permutations (n<=4/5, else shifts, reversal, "
        "transpositions), injection into a pool with negative/huge ids, atom/bond/descriptor insertion orders, every "
        "rewriting of every descriptor through every proper (same parity) and improper (opposite parity) symmetry "
        "element, library relabel_atoms copy/in-place.  Oracle: G==G', G'==G, is_isomorphic, reflexivity must all be True. "
        "Histories: every sequence of <=2 (thorough <=3, stereo reaction class <=2) public mutator calls (22-43 per class) after 2-4 roots per class "
        "on a stereo-valid 14-atom skeleton, graph hashed and compared after every call, then G == freshly built twin both ways. "
        "distinct = distinct (spec, variant) pairs with variant != spec + histories")
ASSUMPTIONS = ["variants are constructed with refgraph/refstereo only (no library code)",
               "an exception raised by == counts as 'not equal'",
               "stereo-valid graphs only (descriptors over the centre and exactly its bonded neighbours)"]
BUDGET = {"quick": 600, "thorough": 1500}


def items(tier, seed):
    E.universes(tier)  # build once in the parent; forked workers share it
    return [dict(c, tier=tier, seed=seed) for c in E.chunks(tier, 4)] + H.items(tier)


def _eq(a, b):
    try:
        r = a == b
        return bool(r) if r is not NotImplemented else False
    except Exception as e:
        return "EXC:" + type(e).__name__


def run_item(item):
    out = {"evals": 0, "distinct": 0, "outcomes": {}, "viol": [], "samples": []}
    if item.get("part") == "history":
        return H.run(item, out, PROP)
    tier, seed = item["tier"], item["seed"]
    specs = E.universes(tier)[item["u"]][item["lo"]:item["hi"]]
    oc = out["outcomes"]

    def V(m, vt, clause, what, m2=None):
        out["viol"].append({"sig": f"C01/{E.SHORT[m.kind]}/{vt}/{clause}",
                            "input": f"{item['u']}:{U.key(m)}", "what": what, "item": item,
                            "detail": {"spec": U.describe(m), "variant": U.describe(m2) if m2 is not None else None}})

    for m in specs:
        g = U.build(m)
        r = _eq(g, g)
        out["evals"] += 1
        shape = "empty" if not m.atoms else ("isolated" if any(not m.nbrs(a) for a in m.atoms) else
                                              ("disconnected" if len(m.components()) > 1 else "connected"))
        oc["reflexive-" + shape] = oc.get("reflexive-" + shape, 0) + 1
        if r is not True:
            V(m, "reflexive-" + shape, f"eq-{r}", f"G == G is {r} for {U.describe(m)}")
        for vt, m2, kw in E.variants(m, tier, seed):
            try:
                g2 = U.build(m2, **kw)
            except Exception as e:
                V(m, vt, "build-raised:" + type(e).__name__, f"building the variant raised {e!r}", m2)
                continue
            out["distinct"] += 1
            oc[vt] = oc.get(vt, 0) + 1
            for name, a, b in (("fwd", g, g2), ("rev", g2, g), ("refl", g2, g2)):
                r = _eq(a, b)
                out["evals"] += 1
                if r is not True:
                    V(m, vt, f"{name}-{r}", f"{name}: equality of a graph and its {vt} variant is {r}", m2)
            try:
                r = g.is_isomorphic(g2)
            except Exception as e:
                r = "EXC:" + type(e).__name__
            out["evals"] += 1
            if r is not True:
                V(m, vt, f"is_isomorphic-{r}", f"is_isomorphic with its {vt} variant is {r}", m2)
        # objects derived by the library itself that must still denote the same graph
        for vt, fn in E.derived(m):
            try:
                g2 = fn(U.build(m))
            except Exception as e:
                V(m, vt, "derivation-raised:" + type(e).__name__, f"{vt} raised {e!r}")
                continue
            if not E.same_content(g2, m):
                oc["derived-content-differs"] = oc.get("derived-content-differs", 0) + 1
                continue
            out["distinct"] += 1
            oc[vt] = oc.get(vt, 0) + 1
            for name, a, b in (("fwd", g, g2), ("rev", g2, g), ("refl", g2, g2)):
                r = _eq(a, b)
                out["evals"] += 1
                if r is not True:
                    V(m, vt, f"{name}-{r}", f"{name}: equality of a freshly built graph and its {vt} counterpart is {r}")
        for vt, fn, m2 in E.edited_after_use(m):
            try:
                g2 = fn(U.build(m))
                gf = U.build(m2)
            except Exception as e:
                V(m, vt, "edit-raised:" + type(e).__name__, f"{vt} raised {e!r}")
                continue
            if not E.same_content(g2, m2):
                oc["derived-content-differs"] = oc.get("derived-content-differs", 0) + 1
                continue
            out["distinct"] += 1
            oc[vt] = oc.get(vt, 0) + 1
            for name, a, b in (("fwd", gf, g2), ("rev", g2, gf)):
                r = _eq(a, b)
                out["evals"] += 1
                if r is not True:
                    V(m, vt, f"{name}-{r}", f"{name}: a graph that was hashed/compared and then edited ({vt}) vs a freshly built graph "
                                            f"with the same content: == is {r}", m2)
        # the graph itself is never edited, but graphs derived from it are: it must still equal a freshly built twin
        if m.bonds and m.atoms:
            b0 = tuple(next(iter(m.bonds)))
            newid = max(m.atoms) + 55
            for dn, fn in (("construct", lambda x: type(x)(x)), ("copy", lambda x: x.copy()),
                           ("subgraph", lambda x: x.subgraph(list(m.atoms))), ("compose", lambda x: type(x).compose([x])),
                           ("relabel-copy", lambda x: x.relabel_atoms({}, copy=True))):
                try:
                    src = U.build(m)
                    d = fn(src)
                    d.remove_bond(*b0)
                    d.add_atom(newid, "C")
                    d.add_bond(newid, b0[0])
                    d.remove_atom(b0[1])
                except Exception:
                    oc["derived-edit-raised"] = oc.get("derived-edit-raised", 0) + 1
                    continue
                out["distinct"] += 1
                oc["source-after-derived-edit"] = oc.get("source-after-derived-edit", 0) + 1
                for name, a, b in (("fwd", g, src), ("rev", src, g)):
                    r = _eq(a, b)
                    out["evals"] += 1
                    if r is not True:
                        V(m, "source-after-edit-of-" + dn, f"{name}-{r}", f"{name}: after editing a graph derived by {dn}, the untouched "
                                                                        f"source no longer equals a freshly built twin: == is {r}")
        # second pass: the library's own relabel_atoms
        ids = list(m.atoms)
        if ids:
            for label, mp in (("lib-relabel-rot", dict(zip(ids, ids[1:] + ids[:1]))),
                              # (the pools have 14 identifiers; larger graphs are shifted instead so that the map stays injective)
                              ("lib-relabel-pool", dict(zip(ids, E.POOLS[seed % 3])) if len(ids) <= 14 else {a: a + 100000 for a in ids}),
                              ("lib-relabel-partial", {ids[0]: max(ids) + 7})):
                for copy in (True, False):
                    try:
                        h = U.build(m)
                        g2 = h.relabel_atoms(dict(mp), copy=copy)
                    except Exception as e:
                        V(m, label, "relabel-raised:" + type(e).__name__, f"relabel_atoms({mp}, copy={copy}) raised {e!r}")
                        continue
                    out["distinct"] += 1
                    oc[label] = oc.get(label, 0) + 1
                    for name, a, b in (("fwd", g, g2), ("rev", g2, g)):
                        r = _eq(a, b)
                        out["evals"] += 1
                        if r is not True:
                            V(m, label, f"{name}-{r}", f"{name}: G vs relabel_atoms({mp}, copy={copy}) is {r}")
        if not out["samples"]:
            out["samples"].append({"universe": item["u"], "spec": U.describe(m),
                                   "n_variants": out["distinct"]})
    return out
