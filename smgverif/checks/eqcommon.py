"""Shared enumeration for C01 / C03: every spec of the universes x every 'same graph by construction' variant."""
from __future__ import annotations

import itertools

from ..model import refgraph as RG
from ..model import refstereo as RS
from ..universe import graphs as U

MG, SMG, CRG, SCRG = RG.MG, RG.SMG, RG.CRG, RG.SCRG
SHORT = {MG: "MG", SMG: "SMG", CRG: "CRG", SCRG: "SCRG"}

POOLS = [
    [-7, 2147483647, 1000, 3, -1, 50, 77, 12, 2147483646, -2147483648, 5, 8, 21, 34],
    [40, -3, 2, 999983, 17, -100, 6, 2147483647, 0, 123456, -9, 64, 31, 1],
    [9, 8, 7, 6, 5, 4, 3, 2, 1, 0, -1, -2, -3, -4],
]


def universes(tier):
    """name -> list of specs.  Deterministic; independent of VERIF_SEED."""
    u = {}
    u["hubs"] = list(U.hubs(tier)) + list(U.large(tier))     # (first: its items are the slowest, they should start early)
    mg = list(U.MG_reps(4, ("C", "H", "O")))
    u["MG"] = mg
    small = [g for g in mg if len(g.atoms) <= 3]
    u["MG-as-SMG"] = [U.to_kind(g, SMG) for g in small]
    u["MG-as-SCRG"] = [U.to_kind(g, SCRG) for g in small]
    u["CRG"] = list(U.CRG_reps(3))
    u["CRG-as-SCRG"] = [U.to_kind(g, SCRG) for g in U.CRG_reps(3) if len(g.atoms) <= 3][::3]
    u["stars"] = list(U.stars(5 if tier == "quick" else 6))
    u["two-unit"] = list(U.two_unit())
    u["SCRG"] = list(U.scrg_universe("quick" if tier == "quick" else "thorough"))
    u["symmetric"] = [g for _, g in U.symmetric()]
    u["stars-as-SCRG"] = [U.to_kind(g, SCRG) for g in U.stars(4)][::2]
    u["stars-extra"] = list(U.stars_extra())
    u["symmetric-reactions"] = [g for _, g in U.symmetric_reactions()][::5]
    if tier == "thorough":
        u["MG5"] = list(U.MG5_reps())
        u["CRG4"] = U.reps(U.crg_labelled(4, ("C",), max_bonds=3))
    return u


def _perm_family(ids, full_upto, few=False):
    n = len(ids)
    if n <= full_upto:
        return [p for p in itertools.permutations(ids)]
    fam = []
    small = n <= 24 and not few
    for k in (range(n) if small else (0, 1, 7 % n, n // 3, n // 2, n - 1)):
        fam.append(tuple(ids[k:] + ids[:k]))
    fam.append(tuple(reversed(ids)))
    big = [(0, 1), (0, n - 1), (1, n // 2), (n // 3, n // 3 + 1), (n // 2, n - 2), (2, n - 3)]
    for i, j in (itertools.combinations(range(n), 2) if small else big):
        p = list(ids)
        p[i], p[j] = p[j], p[i]
        fam.append(tuple(p))
    out, seen = [], set()
    for p in fam:
        if p not in seen:
            seen.add(p)
            out.append(p)
    return out


def _orders(xs, full_upto=3):
    xs = list(xs)
    if len(xs) <= 1:
        return []
    if len(xs) <= full_upto:
        return [list(p) for p in itertools.permutations(xs)][1:]
    out = [list(reversed(xs))]
    for k in range(1, len(xs)):
        out.append(xs[k:] + xs[:k])
    return out[:6]


def _locations(m):
    for c in m.astereo:
        yield ("astereo", c, None)
    for c in m.bstereo:
        yield ("bstereo", c, None)
    for c, kd in m.achg.items():
        for k in kd:
            yield ("achg", c, k)
    for c, kd in m.bchg.items():
        for k in kd:
            yield ("bchg", c, k)


def _get(m, loc):
    st, c, k = loc
    return getattr(m, st)[c] if k is None else getattr(m, st)[c][k]


def _set(m, loc, d):
    st, c, k = loc
    if k is None:
        getattr(m, st)[c] = d
    else:
        getattr(m, st)[c][k] = d


def rewritings(d, limit=None):
    """every other spelling of the same spatial arrangement: t o pi with pi in Rot (same parity) and, for chiral
    parities, pi in Imp (opposite parity); for unspecified parity: ligand reorderings with the centre(s) in place"""
    c, t, p = d
    out = []
    if p is None:
        n = len(t)
        free = list(range(1, n)) if c in RS.ATOM_CLASSES else [0, 1, 4, 5]
        fam = [tuple(reversed(free)), tuple(free[1:] + free[:1])]
        for f in fam:
            idx = list(range(n))
            for a, b in zip(free, f):
                idx[a] = b
            out.append((c, RS.apply(t, idx), None))
    else:
        rot, imp = RS.groups(c)
        for q in sorted(rot):
            out.append((c, RS.apply(t, q), p))
        if p != 0:
            for q in sorted(imp):
                out.append((c, RS.apply(t, q), -p))
    out = [x for x in out if x != (c, tuple(t), p)]
    seen, res = set(), []
    for x in out:
        if x not in seen:
            seen.add(x)
            res.append(x)
    return res[:limit] if limit else res


def variants(m, tier, seed):
    """yield (vtype, spec2, build kwargs).  Every spec2 denotes the same graph as m by construction
    (only refgraph / refstereo are used)."""
    ids = list(m.atoms)
    n = len(ids)
    full = 4 if tier == "quick" else 5
    # (graphs with a 7+-coordinate atom cost ~0.1 s per comparison: a reduced family of renamings for them)
    costly = any(len(m.nbrs(a)) >= 7 for a in ids)
    for p in _perm_family(ids, full, few=costly):
        if list(p) == ids:
            continue
        yield "rename-perm", m.copy().relabel(dict(zip(ids, p))), {}
    pool = POOLS[seed % len(POOLS)]
    if n and n <= len(pool):
        yield "rename-pool", m.copy().relabel(dict(zip(ids, pool))), {}
        yield "rename-shift", m.copy().relabel({a: a + 100 for a in ids}), {}
    for o in _orders(ids):
        yield "atom-order", m, {"atom_order": o}
    for o in _orders([tuple(sorted(b, key=repr)) for b in m.bonds]):
        yield "bond-order", m, {"bond_order": o}
    if m.astereo or m.bstereo or m.achg or m.bchg:
        yield "numpy-typed-descriptors", m, {"np_values": True}
    ns = len(m.astereo) + len(m.bstereo)
    if ns > 1:
        yield "stereo-order", m, {"stereo_order": list(reversed(range(ns)))}
    locs = list(_locations(m))
    lim = None if (tier == "thorough" or len(locs) <= 2) else 12
    for loc in locs:
        for d2 in rewritings(_get(m, loc), lim):
            m2 = m.copy()
            _set(m2, loc, d2)
            yield "rewrite-one", m2, {}
    if len(locs) > 1:
        for pick in (-1, 1):
            m2 = m.copy()
            for loc in locs:
                rw = rewritings(_get(m, loc))
                if rw:
                    _set(m2, loc, rw[pick % len(rw)])
            yield "rewrite-all", m2, {}
    # renamed AND re-expressed AND re-ordered at once
    if n and locs:
        m2 = m.copy()
        for loc in locs:
            rw = rewritings(_get(m, loc))
            if rw:
                _set(m2, loc, rw[len(rw) // 2])
        m2 = m2.relabel(dict(zip(ids, ids[1:] + ids[:1])))
        yield "rename+rewrite", m2, {"atom_order": list(reversed(list(m2.atoms)))}


def fully_specified(m):
    return all(d[2] is not None for d in list(m.astereo.values()) + list(m.bstereo.values())
               + [d for s in (m.achg, m.bchg) for kd in s.values() for d in kd.values()])


def chunks(tier, size=8):
    out = []
    for name, specs in universes(tier).items():
        sz = 1 if name == "hubs" else size      # (each hub spec costs as much as a whole chunk of the others)
        for lo in range(0, len(specs), sz):
            out.append({"u": name, "lo": lo, "hi": min(len(specs), lo + sz)})
    return out


def derived(m):
    """(vtype, function real graph -> real graph): objects the LIBRARY derives from a graph and that must still denote the
    same graph - permuted subgraph, composition of pieces, copy construction, copy, JSON round trip, relabelling there and
    back, and an edit history that adds and removes an extra atom.  The caller verifies (by snapshot) that the derived
    object really has the same labelled content before ==/hash are compared; if not, that is C17 / C10 / C11's business."""
    ids = list(m.atoms)
    n = len(ids)
    if n == 0:
        return
    yield "derived-copy", lambda g: g.copy()
    yield "derived-construct", lambda g: type(g)(g)
    yield "derived-subgraph-reversed", lambda g: g.subgraph(list(reversed(ids)))
    yield "derived-subgraph-rotated", lambda g: g.subgraph(tuple(ids[n // 2:] + ids[:n // 2]))
    yield "derived-compose-one", lambda g: type(g).compose([g])
    yield "derived-compose-components", lambda g: type(g).compose(
        [g.subgraph(sorted(c, reverse=True)) for c in reversed(g.connected_components())])
    if n >= 2:
        yield "derived-compose-overlap", lambda g: type(g).compose([g.subgraph(ids[1:]), g, g.subgraph(ids[:1])])
    mp = dict(zip(ids, [a + 1000 for a in reversed(ids)]))
    inv = {v: k for k, v in mp.items()}
    yield "derived-relabel-roundtrip-copy", lambda g: g.relabel_atoms(dict(mp), copy=True).relabel_atoms(dict(inv), copy=True)

    def inplace(g):
        g.relabel_atoms(dict(mp), copy=False)
        g.relabel_atoms(dict(inv), copy=False)
        return g

    yield "derived-relabel-roundtrip-inplace", inplace

    def history(g):
        x = max(ids) + 77
        g.add_atom(x, "C")
        g.add_bond(x, ids[0])
        hash(g)
        g.remove_bond(x, ids[0])
        g.add_bond(ids[0], x)
        g.remove_atom(x)
        return g

    yield "derived-add-remove-history", history

    def json_rt(g):
        from stereomolgraph.experimental import JSONHandler

        return JSONHandler.json_deserialize(JSONHandler.json_serialize(g))

    yield "derived-json", json_rt

    def retype(g):
        # set the same element again through the attribute API after hashing (cached hash / colour state)
        hash(g)
        for a in ids:
            g.set_atom_attribute(a, "atom_type", g.get_atom_type(a))
        return g

    yield "derived-reset-elements", retype


def same_content(g2, m):
    """does the derived real object have exactly the labelled content of spec m?"""
    from ..snapshot import norm, snap

    return norm(snap(g2), drop_empty_changes=True) == m.observe()


def edited_after_use(m):
    """(vtype, function real graph -> real graph, expected spec): the graph is hashed and compared first (so that any cached
    hash / colouring exists), then edited through the public API; it must then equal - and hash like - a freshly built graph
    with the edited content."""
    from ..universe.graphs import rdesc

    ids = list(m.atoms)
    if not ids:
        return

    def use(g):
        hash(g)
        g == g
        g == g.copy()

    a0 = ids[0]
    m2 = m.copy()
    m2.atoms[a0]["atom_type"] = 14 if m.atoms[a0]["atom_type"] != 14 else 32

    def f_el(g):
        use(g)
        g.set_atom_attribute(a0, "atom_type", "Si" if m.atoms[a0]["atom_type"] != 14 else "Ge")
        return g

    yield "edited-element-after-hash", f_el, m2
    if m.bonds and not (m.astereo or m.bstereo or m.achg or m.bchg):
        b = next(iter(m.bonds))
        m3 = m.copy()
        del m3.bonds[b]

        def f_rb(g):
            use(g)
            g.remove_bond(*b)
            return g

        yield "edited-remove-bond-after-hash", f_rb, m3
    if m.kind in RG.REACTION and m.bonds and not (m.astereo or m.bstereo or m.achg or m.bchg):
        # (a role change under a descriptor would make the graph stereo-invalid: reactant()/product() then rightly raise)
        b = next(iter(m.bonds))
        m4 = m.copy()
        new = "Change.BROKEN" if m.bonds[b].get("reaction") != "Change.BROKEN" else "Change.FORMED"
        m4.bonds[b]["reaction"] = new

        def f_role(g):
            from stereomolgraph.graphs.crg import Change

            use(g)
            g.set_bond_attribute(*b, "reaction", Change[new.split(".")[1]])
            return g

        yield "edited-role-after-hash", f_role, m4
    for c, d in list(m.astereo.items())[:1]:
        if d[2] in (1, -1):
            m5 = m.copy()
            m5.astereo[c] = (d[0], d[1], -d[2])

            def f_par(g, c=c, d=d):
                use(g)
                g.set_atom_stereo(rdesc((d[0], d[1], -d[2])))
                return g

            yield "edited-parity-after-hash", f_par, m5
