"""C16 - hash separates elementary differences used for de-duplication (DESIGN.md 5/C16)."""
from __future__ import annotations

import itertools

from ..model import refgraph as RG
from ..universe import graphs as U
from . import eqcommon as E

PROP = "C16"
RULE = ("family 1: all unordered pairs of isomorphism-class representatives (MolGraph n<=4 {C,H,O}, n=5 {C,H}, as MolGraph and as "
        "StereoMolGraph; stereo stars) whose multisets of (element, sorted neighbour elements) differ; family 2: a tetrahedral centre "
        "with four element-distinct ligands from {H,F,Cl,Br,I,C,N,O} (all 70 quadruples, ligand chains of 0-2 atoms) R vs S, and "
        "double bonds XYC=CZW with X!=Y, Z!=W over the same elements E vs Z; family 3: all pairs of reaction-graph representatives "
        "(n<=3, every role assignment; stereo reaction universe) whose reactants, products or transition structures differ in the "
        "family-1 multiset, every reaction vs its reverse, and ALL 15625 role assignments {none, unchanged, formed, broken, fleeting}^6 on "
        "four labelled atoms (HHClCl, CCCC, CCHO; both reaction classes; incl. degenerate partner exchanges), decided by hash buckets.  Oracle: hash(a) != hash(b).  distinct = pairs compared")
ASSUMPTIONS = ["a 64-bit collision among the compared pairs is treated as a violation, as the property says",
               "hashes are computed once per graph and compared as integers"]
BUDGET = {"quick": 600, "thorough": 1200}
MG, SMG, CRG, SCRG = RG.MG, RG.SMG, RG.CRG, RG.SCRG
ELS = ("H", "F", "Cl", "Br", "I", "C", "N", "O")


def mset(m):
    el = {a: d["atom_type"] for a, d in m.atoms.items()}
    return tuple(sorted((el[a], tuple(sorted(el[x] for x in m.nbrs(a)))) for a in m.atoms))


def items(tier, seed):
    out = [{"fam": 1, "pool": p, "tier": tier} for p in ("MG", "MG-as-SMG", "MG5", "MG5-as-SMG", "stars")]
    out += [{"fam": 2, "part": "tetra", "chain": k, "tier": tier} for k in (0, 1, 2)]
    out += [{"fam": 2, "part": "ez", "chain": k, "tier": tier} for k in (0, 1)]
    out += [{"fam": 2, "part": "isomer-count", "tier": tier}]
    out += [{"fam": 3, "pool": p, "tier": tier} for p in ("CRG", "CRG-as-SCRG", "SCRG")]
    out += [{"fam": 4, "els": e, "kind": k, "tier": tier} for e in (("H", "H", "Cl", "Cl"), ("C", "C", "C", "C"), ("C", "C", "H", "O"))
            for k in (CRG, SCRG)]
    return out


def _h(m):
    return hash(U.build(m))


def run_item(item):
    out = {"evals": 0, "distinct": 0, "outcomes": {}, "viol": [], "samples": []}
    if item["fam"] == 1:
        return _fam1(item, out)
    if item["fam"] == 2:
        return _fam2(item, out)
    if item["fam"] == 4:
        return _fam4(item, out)
    return _fam3(item, out)


def _pool1(name):
    if name == "MG":
        return [g for g in U.MG_reps(4, ("C", "H", "O")) if g.atoms]
    if name == "MG-as-SMG":
        return [U.to_kind(g, SMG) for g in U.MG_reps(4, ("C", "H", "O")) if g.atoms]
    if name == "MG5":
        return list(U.MG5_reps())
    if name == "MG5-as-SMG":
        return [U.to_kind(g, SMG) for g in U.MG5_reps()]
    if name == "stars":
        return [g for g in U.stars(6, all_patterns=True) if E.fully_specified(g)]
    raise KeyError(name)


def _fam1(item, out):
    specs = _pool1(item["pool"])
    hs = [_h(g) for g in specs]
    ms = [mset(g) for g in specs]
    out["evals"] = len(specs)
    n = 0
    for i, j in itertools.combinations(range(len(specs)), 2):
        if ms[i] == ms[j]:
            continue
        n += 1
        if hs[i] == hs[j]:
            out["viol"].append({"sig": f"C16/fam1/{E.SHORT[specs[i].kind]}/{item['pool']}/collision",
                                "input": f"{U.key(specs[i])}|{U.key(specs[j])}",
                                "what": f"{U.describe(specs[i])} and {U.describe(specs[j])} differ in the multiset of (element, "
                                        f"neighbour elements) but both hash to {hs[i]}", "item": item, "detail": None})
    # the same elementary difference produced by EDITING a graph that has already been hashed (in place and on a copy):
    # one element changed through the attribute API, or one bond removed
    ne = 0
    for g0 in specs[:: max(1, len(specs) // 150)]:
        for how in ("inplace", "copy", "construct", "construct-unhashed"):
            for edit in ("element", "bond"):
                r = U.build(g0)
                h0 = hash(r) if how != "construct-unhashed" else None
                t = r if how == "inplace" else (r.copy() if how == "copy" else type(r)(r))
                m2 = g0.copy()
                a0 = next(iter(g0.atoms))
                if edit == "element":
                    t.set_atom_attribute(a0, "atom_type", "Si")
                    m2.atoms[a0]["atom_type"] = 14
                else:
                    if not g0.bonds or g0.astereo or g0.bstereo:
                        continue
                    b = next(iter(g0.bonds))
                    t.remove_bond(*b)
                    del m2.bonds[b]
                if mset(m2) == mset(g0):
                    continue
                ne += 1
                if how.startswith("construct"):
                    # the derived graph was edited: the source still has its content, so the two differ in the multiset and must
                    # hash differently (both hashed now, after the edit)
                    if hash(t) == hash(r):
                        out["viol"].append({"sig": f"C16/fam1/{E.SHORT[g0.kind]}/{item['pool']}/edit-{edit}-{how}/collision",
                                            "input": U.key(g0),
                                            "what": f"{U.describe(g0)}: a graph made with the converting constructor was {edit} edited; "
                                                    f"source and edited copy hash alike although their multisets differ", "item": item,
                                            "detail": None})
                    continue
                if hash(t) == h0:
                    out["viol"].append({"sig": f"C16/fam1/{E.SHORT[g0.kind]}/{item['pool']}/edit-{edit}-{how}/collision",
                                        "input": U.key(g0),
                                        "what": f"{U.describe(g0)} was hashed, then {edit} edited ({how}): the hash did not change although "
                                                f"the multiset of (element, neighbour elements) did", "item": item, "detail": None})
    out["distinct"] = n + ne
    out["evals"] += n + ne
    out["outcomes"] = {f"fam1-{item['pool']}-pairs": n, f"fam1-{item['pool']}-distinct-hashes": len(set(hs)),
                       f"fam1-{item['pool']}-edited-after-hash": ne}
    out["samples"].append({"family": 1, "pool": item["pool"], "graphs": len(specs), "pairs": n})
    return out


def _chain(atoms, bonds, start, nxt, k):
    """append a chain of k carbon atoms to atom 'start'; returns next free id"""
    prev = start
    for _ in range(k):
        atoms.append((nxt, "C"))
        bonds.append((prev, nxt))
        prev = nxt
        nxt += 1
    return nxt


def _fam2(item, out):
    oc = out["outcomes"]
    if item["part"] == "tetra":
        k = item["chain"]
        for quad in itertools.combinations(ELS, 4):
            atoms = [(0, "C")] + [(i + 1, e) for i, e in enumerate(quad)]
            bonds = [(0, i + 1) for i in range(4)]
            nxt = 5
            if k:
                for i, e in enumerate(quad):
                    if e in ("C", "N", "O"):
                        nxt = _chain(atoms, bonds, i + 1, nxt, k)
            a = U.mk(SMG, atoms, bonds, astereo=[("Tetrahedral", (0, 1, 2, 3, 4), 1)])
            b = U.mk(SMG, atoms, bonds, astereo=[("Tetrahedral", (0, 1, 2, 3, 4), -1)])
            ha, hb = _h(a), _h(b)
            out["evals"] += 2
            out["distinct"] += 1
            oc["tetra-pairs"] = oc.get("tetra-pairs", 0) + 1
            if ha == hb:
                out["viol"].append({"sig": f"C16/fam2/tetrahedral/chain{k}/collision", "input": "-".join(quad),
                                    "what": f"R and S forms of C({','.join(quad)}) with ligand chains of {k} atoms hash equal ({ha})",
                                    "item": item, "detail": {"spec": U.describe(a)}})
        out["samples"].append({"family": 2, "part": "tetrahedral", "chain": k, "example": U.describe(a)})
        return out
    if item["part"] == "ez":
        k = item["chain"]
        pairs = list(itertools.combinations(ELS, 2))
        for (x, y) in pairs:
            for (z, w) in pairs:
                atoms = [(0, "C"), (1, "C"), (2, x), (3, y), (4, z), (5, w)]
                bonds = [(0, 1), (0, 2), (0, 3), (1, 4), (1, 5)]
                nxt = 6
                if k:
                    for i, e in ((2, x), (3, y), (4, z), (5, w)):
                        if e in ("C", "N", "O"):
                            nxt = _chain(atoms, bonds, i, nxt, k)
                a = U.mk(SMG, atoms, bonds, bstereo=[("PlanarBond", (2, 3, 0, 1, 4, 5), 0)])
                b = U.mk(SMG, atoms, bonds, bstereo=[("PlanarBond", (2, 3, 0, 1, 5, 4), 0)])
                ha, hb = _h(a), _h(b)
                out["evals"] += 2
                out["distinct"] += 1
                oc["ez-pairs"] = oc.get("ez-pairs", 0) + 1
                if ha == hb:
                    out["viol"].append({"sig": f"C16/fam2/double-bond/chain{k}/collision", "input": f"{x}.{y}>C=C<{z}.{w}",
                                        "what": f"E and Z forms of {x}{y}C=C{z}{w} (chains {k}) hash equal ({ha})",
                                        "item": item, "detail": {"spec": U.describe(a)}})
        out["samples"].append({"family": 2, "part": "double bond", "chain": k, "example": U.describe(a)})
        return out
    # stereoisomer generation de-duplicates by hash: a single stereogenic unit must give exactly two isomers
    from stereomolgraph.experimental import generate_stereoisomers

    for quad in list(itertools.combinations(ELS, 4))[::3]:
        atoms = [(0, "C")] + [(i + 1, e) for i, e in enumerate(quad)]
        bonds = [(0, i + 1) for i in range(4)]
        g = U.build(U.mk(SMG, atoms, bonds, astereo=[("Tetrahedral", (0, 1, 2, 3, 4), None)]))
        n = len(list(generate_stereoisomers(g)))
        out["evals"] += 1
        out["distinct"] += 1
        oc[f"isomers-tetra-{n}"] = oc.get(f"isomers-tetra-{n}", 0) + 1
        if n != 2:
            out["viol"].append({"sig": "C16/fam2/tetrahedral/isomer-count", "input": "-".join(quad),
                                "what": f"generate_stereoisomers of C({','.join(quad)}) yields {n} graphs, expected 2",
                                "item": item, "detail": None})
    pairs = list(itertools.combinations(ELS[:5], 2))
    for (x, y) in pairs:
        for (z, w) in pairs:
            atoms = [(0, "C"), (1, "C"), (2, x), (3, y), (4, z), (5, w)]
            bonds = [(0, 1), (0, 2), (0, 3), (1, 4), (1, 5)]
            g = U.build(U.mk(SMG, atoms, bonds, bstereo=[("PlanarBond", (2, 3, 0, 1, 4, 5), None)]))
            n = len(list(generate_stereoisomers(g)))
            out["evals"] += 1
            out["distinct"] += 1
            oc[f"isomers-ez-{n}"] = oc.get(f"isomers-ez-{n}", 0) + 1
            if n != 2:
                out["viol"].append({"sig": "C16/fam2/double-bond/isomer-count", "input": f"{x}.{y}>C=C<{z}.{w}",
                                    "what": f"generate_stereoisomers of {x}{y}C=C{z}{w} yields {n} graphs, expected 2",
                                    "item": item, "detail": None})
    return out


def _fam3(item, out):
    if item["pool"] == "CRG":
        specs = [g for g in U.CRG_reps(3) if g.atoms]
    elif item["pool"] == "CRG-as-SCRG":
        specs = [U.to_kind(g, SCRG) for g in U.CRG_reps(3) if g.atoms]
    else:
        specs = [g for g in U.scrg_universe("quick" if item["tier"] == "quick" else "thorough")
                 if g.atoms and E.fully_specified(g)]
    hs = [_h(g) for g in specs]
    ms = [(mset(g.side("R")), mset(g.side("P")), mset(g.side("TS"))) for g in specs]
    out["evals"] = len(specs)
    n = 0
    for i, j in itertools.combinations(range(len(specs)), 2):
        if ms[i] == ms[j]:
            continue
        n += 1
        if hs[i] == hs[j]:
            out["viol"].append({"sig": f"C16/fam3/{E.SHORT[specs[i].kind]}/{item['pool']}/collision",
                                "input": f"{U.key(specs[i])}|{U.key(specs[j])}",
                                "what": f"{U.describe(specs[i])} and {U.describe(specs[j])} differ in reactant/product/TS multisets but "
                                        f"both hash to {hs[i]}", "item": item, "detail": None})
    # reaction vs reverse
    nr = 0
    for g, h, m3 in zip(specs, hs, ms):
        if m3[0] == m3[1]:
            continue
        nr += 1
        hr = _h(g.reverse())
        try:
            hr2 = hash(U.build(g).reverse_reaction())
        except Exception as e:
            hr2 = "EXC:" + type(e).__name__
        for tag, x in (("model-reverse", hr), ("reverse_reaction()", hr2)):
            if x == h:
                out["viol"].append({"sig": f"C16/fam3/{E.SHORT[g.kind]}/{item['pool']}/reverse-collision",
                                    "input": U.key(g),
                                    "what": f"{U.describe(g)} and its reverse ({tag}) hash equal although reactant and product differ",
                                    "item": item, "detail": None})
    out["distinct"] = n + nr
    out["evals"] += n + 2 * nr
    out["outcomes"] = {f"fam3-{item['pool']}-pairs": n, f"fam3-{item['pool']}-reversals": nr,
                       f"fam3-{item['pool']}-distinct-hashes": len(set(hs))}
    out["samples"].append({"family": 3, "pool": item["pool"], "graphs": len(specs), "pairs": n})
    return out


def _fam4(item, out):
    """family 3 on four labelled atoms: EVERY assignment of {no bond, unchanged, formed, broken, fleeting} to the six atom pairs
    (5^6 = 15625 labelled reaction graphs per element assignment; partner exchanges A-B + A'-B' -> A-B' + A'-B, whose reactant and
    product multisets coincide with those of 'nothing happens', are among them).  Graphs are bucketed by hash; every bucket must be
    uniform in (reactant, product, TS) multisets - that decides all pairs at once."""
    from collections import Counter

    els, kind = item["els"], item["kind"]
    pairs = list(itertools.combinations(range(4), 2))
    roles = (None, "", "FORMED", "BROKEN", "FLEETING")
    buckets = {}
    cnt = Counter()
    n = 0
    for assign in itertools.product(roles, repeat=6):
        bonds = [(a, b, r or None) for (a, b), r in zip(pairs, assign) if r is not None]
        m = U.mk(kind, list(enumerate(els)), bonds)
        h = _h(m)
        ms = (mset(m.side("R")), mset(m.side("P")), mset(m.side("TS")))
        n += 1
        cnt[ms] += 1
        buckets.setdefault(h, {}).setdefault(ms, m)
    for h, d in buckets.items():
        if len(d) > 1:
            (m1, m2) = list(d.values())[:2]
            out["viol"].append({"sig": f"C16/fam3/{E.SHORT[kind]}/four-atoms/collision", "input": f"{U.key(m1)}|{U.key(m2)}",
                                "what": f"{U.describe(m1)} and {U.describe(m2)} differ in reactant/product/TS multisets but both hash "
                                        f"to {h} ({len(d)} multiset classes in this bucket)", "item": item, "detail": None})
    npairs = n * (n - 1) // 2 - sum(c * (c - 1) // 2 for c in cnt.values())
    out["evals"] = n
    out["distinct"] = n      # graphs hashed; the pairs they decide are reported in the outcomes
    out["outcomes"] = {f"fam3-four-atoms-{''.join(els)}-{E.SHORT[kind]}-pairs": npairs,
                       f"fam3-four-atoms-{''.join(els)}-{E.SHORT[kind]}-distinct-hashes": len(buckets)}
    out["samples"].append({"family": "3/four-atoms", "elements": list(els), "graphs": n, "multiset_classes": len(cnt)})
    return out
