"""Operation alphabet of the explicit-state explorer: well-formed mutators, ill-formed requests, read-only queries.
An op is a JSON list [name, arg, ...]; descriptors are {"D": [cls, atoms, parity]}, keyword arguments {"kw": {...}},
relabel maps {"map": [[old, new], ...]}, Change values the strings 'Change.FORMED' etc (DESIGN.md section 3)."""
from __future__ import annotations

from ..model import refgraph as RG
from ..model import refstereo as RS
from ..model.elements import is_element

MG, SMG, CRG, SCRG = RG.MG, RG.SMG, RG.CRG, RG.SCRG
ABSENT = 9


def D(cls, atoms, parity):
    return {"D": [cls, list(atoms), parity]}


def dtuple(x):
    c, t, p = x["D"]
    return (c, tuple(t), p)


def config(kind, tier):
    """identifier universe, pairs and descriptor menu per class"""
    if kind in (MG, CRG):
        ids = [0, 1, 2]
        pairs = [(0, 1), (0, 2), (1, 2)]
        els = ["C", "H"]
    else:
        ids = [0, 1, 2, 3]
        pairs = [(0, 1), (0, 2), (1, 3)]
        els = ["C"]
    cfg = {"ids": ids, "pairs": pairs, "els": els, "kind": kind}
    if kind in (SMG, SCRG):
        cfg["adesc"] = [
            D("Tetrahedral", (0, 1, 2, 3, None), 1),
            D("Tetrahedral", (0, 1, 2, 3, None), -1),
            D("Tetrahedral", (1, 0, 3, None, None), None),
            D("SquarePlanar", (2, 0, 1, 3, None), 0),
        ]
        cfg["bdesc"] = [
            D("PlanarBond", (2, None, 0, 1, 3, None), 0),
            D("AtropBond", (1, None, 0, 2, 3, None), 1),
        ]
    return cfg


P61 = 2 ** 61 - 1
# identifier universes: "std" = the literals used below; "colliding" = the same roles played by identifiers whose Python hashes
# coincide (hash(-1) == hash(-2) == hash(-(P+2)); hash(0) == hash(P) == hash(2P) == hash(3P)) - present atoms collide with each
# other, with the relabelling target and with the never-added identifiers
IDSETS = {"std": None, "colliding": {0: -1, 1: -2, 2: P61, 3: 0, 5: -(P61 + 2), 9: 2 * P61, 8: 3 * P61}}


def _rid(x, mp):
    return mp.get(x, x) if x is not None else None


def _rdesc(d, mp):
    c, t, p = d["D"]
    return {"D": [c, [_rid(a, mp) for a in t], p]}


def rename_op(op, mp):
    """the same op with every atom identifier sent through mp (values, attribute names, parities are left alone)"""
    name = op[0]
    kw = op[-1] if (len(op) > 1 and isinstance(op[-1], dict) and "kw" in op[-1]) else None
    args = list(op[1:-1] if kw is not None else op[1:])
    if name in ("add_atom", "remove_atom", "set_atom_attribute", "delete_atom_attribute", "has_atom", "get_atom_attribute",
                "get_atom_attributes", "get_atom_type", "bonded_to", "node_connected_component", "neighbors_getitem", "views_getitem",
                "delete_atom_stereo", "get_atom_stereo", "get_atom_stereo_change", "delete_atom_stereo_change"):
        args[0] = _rid(args[0], mp)
    elif name in ("add_bond", "remove_bond", "add_formed_bond", "add_broken_bond", "add_fleeting_bond", "set_bond_attribute",
                  "delete_bond_attribute", "has_bond", "get_bond_attribute", "get_bond_attributes"):
        args[0], args[1] = _rid(args[0], mp), _rid(args[1], mp)
    elif name in ("delete_bond_stereo", "get_bond_stereo", "get_bond_stereo_change", "delete_bond_stereo_change"):
        args[0] = [_rid(a, mp) for a in args[0]]
    elif name == "relabel_atoms":
        args[0] = {"map": [[_rid(a, mp), _rid(b, mp)] for a, b in args[0]["map"]]}
    elif name in ("set_atom_stereo", "set_bond_stereo"):
        args[0] = _rdesc(args[0], mp)
    elif name == "views":
        args = [{"universe": [_rid(a, mp) for a in (0, 1, 2, 3, 5, ABSENT)]}]
    out = [name] + args
    if kw is not None:
        k2 = {}
        for k, v in kw["kw"].items():
            k2[k] = _rdesc(v, mp) if isinstance(v, dict) and "D" in v else v
        out.append({"kw": k2})
    return out


def universe(kind, tier="quick", idset="std"):
    ids = config(kind, tier)["ids"] + [5, ABSENT]
    mp = IDSETS[idset]
    return ids if mp is None else [_rid(a, mp) for a in ids]


def alphabet(kind, tier="quick", idset="std"):
    if idset != "std":
        return [rename_op(o, IDSETS[idset]) for o in alphabet(kind, tier)]
    cfg = config(kind, tier)
    ids, pairs, els = cfg["ids"], cfg["pairs"], cfg["els"]
    ops = []
    A = ops.append
    # ---- mutators ------------------------------------------------------------------------------
    for a in ids:
        for el in els:
            A(["add_atom", a, el])
    A(["add_atom", ids[0], "H" if "H" not in els else "C", {"kw": {"x": 1}}])
    A(["add_atom", ids[1], els[0], {"kw": {"x": 2}}])
    A(["add_atom", ids[0], "Xx"])                      # not an element
    A(["add_atom", ids[1], 0])                         # not an element
    for a in ids + [ABSENT]:
        A(["remove_atom", a])
    for (a, b) in pairs:
        A(["add_bond", a, b])
        A(["remove_bond", a, b])
    A(["add_bond", pairs[0][0], pairs[0][1], {"kw": {"x": 1}}])
    A(["add_bond", 0, 0])                              # self bond
    A(["add_bond", 1, 1])
    A(["add_bond", 0, ABSENT])
    A(["add_bond", ABSENT, 1])
    A(["remove_bond", 0, ABSENT])
    A(["remove_bond", 0, 0])
    for a in (0, 1, ABSENT):
        A(["set_atom_attribute", a, "x", 1])
        A(["delete_atom_attribute", a, "x"])
        A(["delete_atom_attribute", a, "atom_type"])
    A(["set_atom_attribute", 0, "x", 2])
    A(["set_atom_attribute", 0, "atom_type", "H"])
    A(["set_atom_attribute", 1, "atom_type", 6])
    A(["set_atom_attribute", 0, "atom_type", "Xx"])
    A(["set_atom_attribute", ABSENT, "atom_type", "C"])
    for (a, b) in [pairs[0], pairs[1], (0, ABSENT)]:
        A(["set_bond_attribute", a, b, "x", 1])
        A(["delete_bond_attribute", a, b, "x"])
    A(["set_bond_attribute", pairs[0][0], pairs[0][1], "x", 2])
    if kind in (CRG, SCRG):
        for (a, b) in pairs:
            for r in RG.ROLES:
                A(["add_bond", a, b, {"kw": {"reaction": r}}])
        a, b = pairs[0]
        A(["add_formed_bond", a, b])
        A(["add_broken_bond", a, b])
        A(["add_fleeting_bond", a, b])
        A(["add_formed_bond", *pairs[1], {"kw": {"x": 1}}])
        A(["add_broken_bond", *pairs[2]])
        A(["add_formed_bond", 0, ABSENT])
        A(["add_broken_bond", ABSENT, 1])
        A(["add_fleeting_bond", 0, ABSENT])
        A(["add_formed_bond", 0, 0])
        A(["add_bond", a, b, {"kw": {"reaction": "formed"}}])          # wrong type
        A(["add_bond", a, b, {"kw": {"reaction": None}}])              # wrong type (an explicit None is not 'no label')
        A(["add_bond", pairs[1][0], pairs[1][1], {"kw": {"reaction": None, "x": 1}}])
        A(["set_bond_attribute", a, b, "reaction", "Change.BROKEN"])
        A(["set_bond_attribute", a, b, "reaction", "formed"])            # wrong type
        A(["set_bond_attribute", a, b, "reaction", None])                # wrong type
        A(["delete_bond_attribute", a, b, "reaction"])
    # in-place relabelling
    A(["relabel_atoms", {"map": [[0, 1], [1, 0]]}])
    A(["relabel_atoms", {"map": [[0, 5]]}])
    A(["relabel_atoms", {"map": [[5, 0]]}])
    A(["relabel_atoms", {"map": []}])
    if kind in (SMG, SCRG):
        for d in cfg["adesc"]:
            A(["set_atom_stereo", d])
        for d in cfg["bdesc"]:
            A(["set_bond_stereo", d])
        A(["set_atom_stereo", D("Tetrahedral", (ABSENT, 0, 1, 2, None), 1)])      # unknown centre
        A(["set_bond_stereo", D("PlanarBond", (1, None, 0, ABSENT, 2, None), 0)])   # unknown bond
        for a in (0, 1, 2, ABSENT):
            A(["delete_atom_stereo", a])
        for b in ([0, 1], [0, 2], [0, ABSENT]):
            A(["delete_bond_stereo", b])
    if kind == SCRG:
        t1, t2, t3, sp = cfg["adesc"]
        pb, ab = cfg["bdesc"]
        A(["set_atom_stereo_change", {"kw": {"broken": t1}}])
        A(["set_atom_stereo_change", {"kw": {"formed": t2}}])
        A(["set_atom_stereo_change", {"kw": {"broken": t1, "formed": t2}}])
        A(["set_atom_stereo_change", {"kw": {"fleeting": t1}}])
        A(["set_atom_stereo_change", {"kw": {"fleeting": sp}}])
        A(["set_atom_stereo_change", {"kw": {"broken": t1, "formed": t3}}])      # two centres
        A(["set_atom_stereo_change", {"kw": {"broken": t1, "fleeting": t3, "formed": t2}}])   # the odd centre in the middle
        A(["set_atom_stereo_change", {"kw": {"broken": t3, "fleeting": t1, "formed": t2}}])   # the odd centre first
        A(["set_bond_stereo_change", {"kw": {"broken": pb, "fleeting": ab, "formed": pb}}])   # three labels, odd bond in the middle
        A(["set_atom_stereo_change", {"kw": {}}])                                 # no centre
        A(["set_atom_stereo_change", {"kw": {"formed": D("Tetrahedral", (ABSENT, 0, 1, 2, None), 1)}}])
        A(["set_bond_stereo_change", {"kw": {"formed": pb}}])
        A(["set_bond_stereo_change", {"kw": {"broken": pb, "fleeting": D("PlanarBond", (3, None, 0, 1, 2, None), 0)}}])
        A(["set_bond_stereo_change", {"kw": {"broken": pb, "formed": ab}}])      # two bonds
        A(["set_bond_stereo_change", {"kw": {}}])
        A(["set_bond_stereo_change", {"kw": {"broken": D("PlanarBond", (1, None, 0, ABSENT, 2, None), 0)}}])
        for a in (0, 2, ABSENT):
            A(["delete_atom_stereo_change", a])
            A(["delete_atom_stereo_change", a, "Change.BROKEN"])
        A(["delete_atom_stereo_change", 0, "Change.FORMED"])
        for b in ([0, 1], [0, ABSENT]):
            A(["delete_bond_stereo_change", b])
            A(["delete_bond_stereo_change", b, "Change.FORMED"])
    # ---- read-only queries -----------------------------------------------------------------------
    for a in (0, 1, ABSENT):
        A(["has_atom", a])
        A(["get_atom_attribute", a, "x"])
        A(["get_atom_attribute", a, "atom_type"])
        A(["get_atom_attributes", a])
        A(["get_atom_attributes", a, ["atom_type"]])
        A(["get_atom_type", a])
        A(["bonded_to", a])
        A(["node_connected_component", a])
        A(["neighbors_getitem", a])
        A(["views_getitem", a])
    for (a, b) in [pairs[0], pairs[2], (0, ABSENT), (ABSENT, 8)]:
        A(["has_bond", a, b])
        A(["get_bond_attribute", a, b, "x"])
        A(["get_bond_attributes", a, b])
        A(["get_bond_attributes", a, b, ["x"]])
    for name in ("connectivity_matrix", "connected_components", "eq_self", "eq_copy", "hash", "str", "copy",
                 "_to_rdmol", "as_dict", "json_serialize", "copy_construct", "subgraph_all", "views"):
        A([name])
    if kind in (CRG, SCRG):
        for name in ("get_formed_bonds", "get_broken_bonds", "get_fleeting_bonds", "active_atoms", "reactant",
                     "product", "reverse_reaction", "_ts"):
            A([name])
    if kind in (SMG, SCRG):
        for a in (0, 1, ABSENT):
            A(["get_atom_stereo", a])
        for b in ([0, 1], [0, 2], [0, ABSENT]):
            A(["get_bond_stereo", b])
        A(["is_stereo_valid"])
        A(["enantiomer"])
    if kind == SCRG:
        for a in (0, 1, ABSENT):
            A(["get_atom_stereo_change", a])
        for b in ([0, 1], [0, ABSENT]):
            A(["get_bond_stereo_change", b])
    return ops


READ_ONLY = {
    "neighbors_getitem", "views_getitem",
    "has_atom", "get_atom_attribute", "get_atom_attributes", "get_atom_type", "bonded_to", "node_connected_component",
    "has_bond", "get_bond_attribute", "get_bond_attributes", "connectivity_matrix", "connected_components", "eq_self",
    "eq_copy", "hash", "str", "copy", "_to_rdmol", "as_dict", "json_serialize", "copy_construct", "subgraph_all",
    "views", "get_formed_bonds", "get_broken_bonds", "get_fleeting_bonds", "active_atoms", "reactant", "product",
    "reverse_reaction", "_ts", "get_atom_stereo", "get_bond_stereo", "is_stereo_valid", "enantiomer",
    "get_atom_stereo_change", "get_bond_stereo_change",
}


def _kw(op):
    if op and isinstance(op[-1], dict) and "kw" in op[-1]:
        return op[-1]["kw"], op[1:-1]
    return {}, op[1:]


def classify(m, op):
    """(verdict, shape): 'wf' well-formed mutator, 'ill' ill-formed request, 'ro' read-only query, 'skip' not
    generated in this state.  The rules are those of DESIGN.md 4.3."""
    name = op[0]
    kw, args = _kw(op)
    reaction = m.kind in RG.REACTION

    def pa(a):
        return "present" if a in m.atoms else "absent"

    def pb(a, b):
        if a == b:
            return "self"
        return "present" if RG.B(a, b) in m.bonds else ("nobond" if a in m.atoms and b in m.atoms else "absent-atom")

    if name in READ_ONLY:
        shape = "any"
        if name in ("has_atom", "get_atom_attribute", "get_atom_attributes", "get_atom_type", "bonded_to",
                    "node_connected_component", "get_atom_stereo", "get_atom_stereo_change", "neighbors_getitem",
                    "views_getitem"):
            shape = pa(args[0])
        elif name in ("has_bond", "get_bond_attribute", "get_bond_attributes"):
            shape = pb(args[0], args[1])
        elif name in ("get_bond_stereo", "get_bond_stereo_change"):
            shape = pb(*args[0])
        return "ro", shape
    if name == "add_atom":
        el = args[1]
        if not is_element(el):
            return "ill", "non-element/" + pa(args[0])
        return "wf", pa(args[0]) + ("+attrs" if kw else "")
    if name == "remove_atom":
        a = args[0]
        if a not in m.atoms:
            return "ill", "absent"
        deg = len(m.nbrs(a))
        st = any(a in RS.atoms_of(d) for d in m.astereo.values()) or any(a in RS.atoms_of(d) for d in m.bstereo.values())
        ch = any(a in RS.atoms_of(d) for s in (m.achg, m.bchg) for kd in s.values() for d in kd.values())
        return "wf", ("bonded" if deg else "isolated") + ("+stereo" if st else "") + ("+change" if ch else "")
    if name in ("add_bond", "add_formed_bond", "add_broken_bond", "add_fleeting_bond"):
        a, b = args[0], args[1]
        if a == b:
            return "ill", "self/" + pa(a)
        if a not in m.atoms or b not in m.atoms:
            return "ill", "absent-atom"
        if "reaction" in kw and reaction and not RG.is_role(kw["reaction"]):
            return "ill", "wrong-role-type"
        return "wf", pb(a, b) + ("+role" if ("reaction" in kw or name != "add_bond") else "") + ("+attrs" if kw else "")
    if name == "remove_bond":
        s = pb(args[0], args[1])
        return ("wf" if s == "present" else "ill"), s
    if name == "set_atom_attribute":
        a, k, v = args
        if a not in m.atoms:
            return "ill", "absent"
        if k == "atom_type" and not is_element(v):
            return "ill", "non-element"
        return "wf", "present/" + ("atom_type" if k == "atom_type" else "attr")
    if name == "delete_atom_attribute":
        a, k = args
        if a not in m.atoms:
            return "ill", "absent" + ("/atom_type" if k == "atom_type" else "")
        if k == "atom_type":
            return "ill", "atom_type"
        if k not in m.atoms[a]:
            return "ill", "no-attr"
        return "wf", "present"
    if name == "set_bond_attribute":
        a, b, k, v = args
        s = pb(a, b)
        if s != "present":
            return "ill", s
        if k == "reaction" and reaction and not RG.is_role(v):
            return "ill", "wrong-role-type"
        return "wf", "present/" + ("role" if k == "reaction" else "attr")
    if name == "delete_bond_attribute":
        a, b, k = args
        s = pb(a, b)
        if s != "present":
            return "ill", s
        if k not in m.bonds[RG.B(a, b)]:
            return "ill", "no-attr"
        return "wf", "present/" + ("role" if k == "reaction" else "attr")
    if name == "relabel_atoms":
        mp = dict(map(tuple, args[0]["map"]))
        men = m.mentioned()
        img = [mp.get(x, x) for x in men]
        if len(set(img)) != len(img):
            return "skip", "non-injective"
        touched = [x for x in mp if x in m.atoms]
        return "wf", ("identity" if not any(mp.get(x, x) != x for x in men) else ("partial" if len(touched) < len(m.atoms) else "total"))
    if name == "set_atom_stereo":
        d = dtuple(args[0])
        return ("wf", "present/" + d[0]) if RS.centre_of(d) in m.atoms else ("ill", "unknown-centre")
    if name == "set_bond_stereo":
        d = dtuple(args[0])
        return ("wf", "present/" + d[0]) if RS.centre_of(d) in m.bonds else ("ill", "unknown-bond")
    if name == "delete_atom_stereo":
        return ("wf", "present") if args[0] in m.astereo else ("ill", "no-entry/" + pa(args[0]))
    if name == "delete_bond_stereo":
        return ("wf", "present") if frozenset(args[0]) in m.bstereo else ("ill", "no-entry/" + pb(*args[0]))
    if name in ("set_atom_stereo_change", "set_bond_stereo_change"):
        ds = [dtuple(v) for v in kw.values() if v is not None]
        cs = {RS.centre_of(d) for d in ds}
        if len(cs) == 0:
            return "ill", "no-centre"
        if len(cs) > 1:
            return "ill", "several-centres"
        c = next(iter(cs))
        ok = c in (m.atoms if name == "set_atom_stereo_change" else m.bonds)
        return ("wf", "present/" + "+".join(sorted(kw))) if ok else ("ill", "unknown-centre")
    if name == "delete_atom_stereo_change":
        a = args[0]
        kind = args[1].split(".")[1] if len(args) > 1 else None
        if a not in m.achg:
            return "ill", "no-entry/" + pa(a) + ("/kind" if kind else "")
        if kind and kind not in m.achg[a]:
            return "ill", "no-kind"
        return "wf", "present" + ("/kind" if kind else "")
    if name == "delete_bond_stereo_change":
        b = frozenset(args[0])
        kind = args[1].split(".")[1] if len(args) > 1 else None
        if b not in m.bchg:
            return "ill", "no-entry/" + pb(*args[0]) + ("/kind" if kind else "")
        if kind and kind not in m.bchg[b]:
            return "ill", "no-kind"
        return "wf", "present" + ("/kind" if kind else "")
    raise ValueError(op)


def apply_model(m, op):
    name = op[0]
    kw, args = _kw(op)
    if name == "add_atom":
        m.add_atom(args[0], args[1], **kw)
    elif name == "add_bond":
        m.add_bond(args[0], args[1], **kw)
    elif name in ("add_formed_bond", "add_broken_bond", "add_fleeting_bond"):
        r = "Change." + name.split("_")[1].upper()
        m.add_bond(args[0], args[1], **{**kw, "reaction": r})
    elif name == "relabel_atoms":
        m.relabel(dict(map(tuple, args[0]["map"])))
    elif name in ("set_atom_stereo", "set_bond_stereo"):
        getattr(m, name)(dtuple(args[0]))
    elif name in ("set_atom_stereo_change", "set_bond_stereo_change"):
        getattr(m, name)(**{k: dtuple(v) for k, v in kw.items() if v is not None})
    elif name in ("delete_atom_stereo_change", "delete_bond_stereo_change"):
        kind = args[1].split(".")[1] if len(args) > 1 else None
        getattr(m, name)(args[0], kind)
    else:
        getattr(m, name)(*args)


# ---------------------------------------------------------------------------------------------------------
# real side
# ---------------------------------------------------------------------------------------------------------

def real_cls(kind):
    import stereomolgraph as smg

    return getattr(smg, kind)


def rdesc(x):
    import stereomolgraph.stereodescriptors as sd

    if x is None:
        return None
    c, t, p = x["D"] if isinstance(x, dict) else x
    return getattr(sd, c)(tuple(t), p)


def rval(v):
    if isinstance(v, str) and v.startswith("Change."):
        from stereomolgraph.graphs.crg import Change

        return Change[v.split(".")[1]]
    return v


def apply_real(g, op):
    """execute one op on the real object; returns whatever the call returns"""
    name = op[0]
    kw, args = _kw(op)
    if name in ("add_atom", "add_bond", "add_formed_bond", "add_broken_bond", "add_fleeting_bond"):
        return getattr(g, name)(*args, **{k: rval(v) for k, v in kw.items()})
    if name in ("set_atom_attribute", "set_bond_attribute"):
        return getattr(g, name)(*[rval(a) for a in args])
    if name == "relabel_atoms":
        r = g.relabel_atoms(dict(map(tuple, args[0]["map"])), copy=False)
        return ("relabel-returned-self", r is g)
    if name in ("set_atom_stereo", "set_bond_stereo"):
        return getattr(g, name)(rdesc(args[0]))
    if name in ("set_atom_stereo_change", "set_bond_stereo_change"):
        return getattr(g, name)(**{k: rdesc(v) for k, v in kw.items()})
    if name in ("delete_atom_stereo_change", "delete_bond_stereo_change"):
        if len(args) > 1:
            return getattr(g, name)(args[0], rval(args[1]))
        return getattr(g, name)(args[0])
    if name == "neighbors_getitem":
        return set(g.neighbors[args[0]])
    if name == "views_getitem":
        # indexing / .get on every public mapping view with the given key
        out = []
        for v in ("atoms_with_attributes", "bonds_with_attributes", "neighbors", "atom_stereo", "bond_stereo", "stereo",
                  "atom_stereo_changes", "bond_stereo_changes"):
            if hasattr(g, v):
                view = getattr(g, v)
                for key in (args[0], frozenset((args[0], 0)), frozenset((args[0], 1))):
                    try:
                        out.append(repr(view.get(key)))
                        out.append(key in view)
                        out.append(repr(view[key]))
                    except Exception as e:
                        out.append(type(e).__name__)
        return out
    if name == "eq_self":
        return g == g
    if name == "eq_copy":
        return g == g.copy()
    if name == "hash":
        return hash(g)
    if name == "str":
        return (str(g), repr(g))
    if name == "copy_construct":
        return type(g)(g)
    if name == "subgraph_all":
        return g.subgraph(list(g.atoms))
    if name in ("as_dict", "json_serialize"):
        from stereomolgraph.experimental import JSONHandler

        return getattr(JSONHandler, name)(g)
    if name == "views":
        from ..snapshot import views

        return views(g, args[0]["universe"] if args else [0, 1, 2, 3, 5, ABSENT])
    if name in ("get_atom_attributes", "get_bond_attributes"):
        r = getattr(g, name)(*args)
        return dict(r)
    if name in ("get_bond_stereo", "get_bond_stereo_change", "delete_bond_stereo"):
        return getattr(g, name)(tuple(args[0]))
    return getattr(g, name)(*args)


# ---------------------------------------------------------------------------------------------------------
# a stored history as a plain script (no explorer, no reference model): part of every replay file of C09 / C19
# ---------------------------------------------------------------------------------------------------------

def _py_desc(x):
    c, t, p = x["D"] if isinstance(x, dict) else x
    return f"sd.{c}({tuple(t)!r}, {p!r})"


def _py_val(v):
    if isinstance(v, str) and v.startswith("Change."):
        return v
    return repr(v)


def _py_call(op):
    name = op[0]
    kw, args = _kw(op)
    kws = "".join(f", {k}={_py_val(v)}" for k, v in kw.items())
    if name in ("add_atom", "add_bond", "add_formed_bond", "add_broken_bond", "add_fleeting_bond"):
        return f"g.{name}({', '.join(map(repr, args))}{kws})"
    if name in ("set_atom_attribute", "set_bond_attribute"):
        return f"g.{name}({', '.join(_py_val(a) for a in args)})"
    if name == "relabel_atoms":
        return f"g.relabel_atoms({dict(map(tuple, args[0]['map']))!r}, copy=False)"
    if name in ("set_atom_stereo", "set_bond_stereo"):
        return f"g.{name}({_py_desc(args[0])})"
    if name in ("set_atom_stereo_change", "set_bond_stereo_change"):
        return f"g.{name}({', '.join(f'{k}={_py_desc(v)}' for k, v in kw.items())})"
    if name in ("delete_atom_stereo_change", "delete_bond_stereo_change"):
        a = tuple(args[0]) if isinstance(args[0], list) else args[0]
        return f"g.{name}({a!r}{', ' + args[1] if len(args) > 1 else ''})"
    if name in ("get_bond_stereo", "get_bond_stereo_change", "delete_bond_stereo"):
        return f"g.{name}({tuple(args[0])!r})"
    special = {"eq_self": "g == g", "eq_copy": "g == g.copy()", "hash": "hash(g)", "str": "(str(g), repr(g))",
               "copy_construct": "type(g)(g)", "subgraph_all": "g.subgraph(list(g.atoms))", "neighbors_getitem": f"g.neighbors[{args[0]!r}]" if args else "",
               "as_dict": "JSONHandler.as_dict(g)", "json_serialize": "JSONHandler.json_serialize(g)", "views": "state(g)"}
    if name in special:
        return special[name]
    if name == "views_getitem":
        return f"[v.get({args[0]!r}) for v in (g.atoms_with_attributes, g.bonds_with_attributes, g.neighbors)]"
    return f"g.{name}({', '.join(map(repr, args))})"


def to_python(kind, hist, op=None):
    """standalone script: rebuilds the history through the public API, prints every public view, performs the last call and
    prints the views again"""
    L = ["# standalone replay (needs only the library): PYTHONPATH=/repo/src /venv/bin/python this_file.py",
         "import stereomolgraph as smg", "import stereomolgraph.stereodescriptors as sd", "from stereomolgraph.graphs.crg import Change",
         "from stereomolgraph.experimental import JSONHandler", "", "",
         "def state(g):",
         "    out = {'atoms': list(g.atoms), 'bonds': [tuple(sorted(b, key=repr)) for b in g.bonds],",
         "           'atom_attrs': {a: dict(g.get_atom_attributes(a)) for a in g.atoms},",
         "           'bond_attrs': {tuple(sorted(b, key=repr)): dict(g.get_bond_attributes(*b)) for b in g.bonds},",
         "           'neighbors': {a: sorted(n, key=repr) for a, n in g.neighbors.items()}}",
         "    for v in ('atom_stereo', 'bond_stereo', 'atom_stereo_changes', 'bond_stereo_changes'):",
         "        if hasattr(g, v):",
         "            out[v] = {repr(k): repr(d) for k, d in getattr(g, v).items()}",
         "    return out", "", "",
         f"g = smg.{kind}()"]
    for o in hist:
        L.append(_py_call(o))
    L.append("before = state(g)")
    L.append("print('before:', before)")
    if op is not None:
        L += ["try:", f"    print('call returned:', {_py_call(op)})", "except Exception as e:",
              "    print('call raised:', type(e).__name__, e)", "after = state(g)", "print('after: ', after)",
              "print('changed:', [k for k in after if after.get(k) != before.get(k)])"]
    return "\n".join(L) + "\n"
