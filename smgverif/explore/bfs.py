"""Explicit-state breadth-first explorer over editing histories of the real graph classes (DESIGN.md section 3).

state      = history (list of ops); the real object is rebuilt by replaying it on a fresh instance
canon      = raw private containers incl. container types (order-insensitive in pass A, ordered in pass B)
oracles    = per transition: reference-model verdict (well-formed / ill-formed / read-only)
             per generated successor: all public views coherent with the model advanced by the same history
"""
from __future__ import annotations

import json

from ..model import refgraph as RG
from ..snapshot import canon, diff, norm, snap, views
from . import ops as OPS

SHORT = {RG.MG: "MG", RG.SMG: "SMG", RG.CRG: "CRG", RG.SCRG: "SCRG"}


def replay_history(kind, hist):
    """fresh real object + fresh model advanced by hist (all ops of a stored history are well-formed)"""
    g = OPS.real_cls(kind)()
    m = RG.RefGraph(kind)
    for op in hist:
        OPS.apply_real(g, op)
        OPS.apply_model(m, op)
    return g, m


def _ctype(s):
    t = s["types"]
    return "dd" if t["neighbors"] == "defaultdict" and t["atom_attrs"] == "defaultdict" else "plain"


def _cmp_views(rv, mv):
    """first view in which real and model disagree, or None.  neighbour entries that are empty for existing atoms
    are not compared (DESIGN.md section 3, 'what counts as a view disagreement')."""
    atoms = rv.get("atoms")
    bad = []
    for k in mv:
        r = rv.get(k)
        e = mv[k]
        if k == "neighbors" and isinstance(r, dict) and isinstance(atoms, list):
            r = {a: n for a, n in r.items() if n or a not in atoms}
        if k == "stereo" and isinstance(r, dict):
            pass
        if r != e:
            bad.append(k)
    return bad


def check_coherent(g, m, universe):
    """returns list of (clause, detail) for every incoherence between the public views and the model"""
    out = []
    rv = views(g, universe)
    atoms = rv["atoms"]
    bonds = rv["bonds"]
    if not isinstance(atoms, list) or set(atoms) != set(m.atoms) or len(set(atoms)) != len(atoms):
        return [("view:atoms", {"real": atoms, "model": sorted(m.atoms, key=repr)})]
    if not isinstance(bonds, list) or {frozenset(b) for b in bonds} != set(m.bonds) or len(set(bonds)) != len(bonds):
        return [("view:bonds", {"real": bonds, "model": sorted(map(sorted, m.bonds))})]
    mv = m.views(universe, atoms, bonds)
    for k in _cmp_views(rv, mv):
        out.append(("view:" + k, {"real": rv.get(k), "model": mv[k]}))
    return out


def expand(arg):
    """expand one state: apply every op of the alphabet to a fresh replay of the history"""
    kind, hist, mode, ordered, tier = arg["kind"], arg["hist"], arg["mode"], arg["ordered"], arg["tier"]
    idset = arg.get("idset", "std")
    alpha = OPS.alphabet(kind, tier, idset)
    universe = OPS.universe(kind, tier, idset)
    res = {"evals": 0, "trans": 0, "viol": [], "succ": [], "outcomes": {}, "samples": []}
    oc = res["outcomes"]
    P = "C09" if mode == "C09" else "C19"

    def V(op, shape, clause, ctype, what, detail=None, at=None):
        sig = f"{P}/{SHORT[kind]}/{op[0]}/{shape}/{ctype}/{clause}"
        res["viol"].append({"sig": sig, "input": None, "what": what,
                            "item": {"kind": kind, "hist": hist if at is None else at, "op": op, "mode": mode, "tier": tier, "idset": idset},
                            "detail": detail})

    only = arg.get("only_op")
    for op in alpha:
        if only is not None and op != only:
            continue
        g, m = replay_history(kind, hist)
        verdict, shape = OPS.classify(m, op)
        if verdict == "skip":
            continue
        if mode == "C19" and verdict == "ro" and shape not in ("absent", "absent-atom", "nobond", "self"):
            continue
        if mode == "C09" and verdict == "ill":
            continue
        pre = snap(g)
        ctype = _ctype(pre)
        npre = norm(pre)
        exc = None
        ret = None
        try:
            ret = OPS.apply_real(g, op)
        except Exception as e:
            exc = e
        post = snap(g)
        npost = norm(post)
        res["trans"] += 1
        res["evals"] += 1
        oc[verdict] = oc.get(verdict, 0) + 1
        hs = json.dumps(hist)[-300:]
        if verdict == "wf":
            OPS.apply_model(m, op)
            bad = False
            if exc is not None:
                if mode == "C09":
                    V(op, shape, "raised:" + type(exc).__name__, ctype,
                      f"well-formed {op} raised {type(exc).__name__}: {exc} after {hs}",
                      {"changed": diff(npre, npost)})
                bad = True
            else:
                mo = m.observe()
                d = diff(npost, mo)
                if d:
                    if mode == "C09":
                        V(op, shape, "state:" + "+".join(d), ctype,
                          f"after {op} containers disagree with the reference model in {d} (history {hs})",
                          {k: {"real": npost.get(k), "model": mo.get(k)} for k in d})
                    bad = True
                elif op[0] == "relabel_atoms" and ret != ("relabel-returned-self", True):
                    if mode == "C09":
                        V(op, shape, "returned-other-object", ctype,
                          f"relabel_atoms(copy=False) did not return the object it modified (history {hs})")
                    bad = True
                else:
                    key = canon(post, ordered)  # before the (possibly inserting) view calls
                    inc = check_coherent(g, m, universe)
                    if inc:
                        if mode == "C09":
                            for clause, det in inc[:3]:
                                V(op, shape, clause, ctype,
                                  f"after {op} public view {clause} disagrees with the reference model (history {hs})", det)
                        bad = True
                    else:
                        # the view calls themselves are read-only queries
                        n2 = norm(snap(g))
                        if n2 != npost:
                            if mode == "C09":
                                V(["views"], "any", "ro-changed:" + "+".join(diff(npost, n2)), ctype,
                                  f"reading the public views changed the graph after {hs} + {op}", at=hist + [op])
                            bad = True
            if not bad:
                res["succ"].append((hist + [op], key))
        elif verdict == "ill":
            if exc is None:
                V(op, shape, "accepted", ctype, f"ill-formed {op} did not raise (history {hs})",
                  {"changed": diff(npre, npost)})
            if npost != npre:
                d = diff(npre, npost)
                V(op, shape, "changed:" + "+".join(d), ctype,
                  f"rejected {op} ({type(exc).__name__ if exc else 'no exception'}) changed {d} (history {hs})",
                  {k: {"before": npre.get(k), "after": npost.get(k)} for k in d})
        else:  # read-only
            if npost != npre:
                d = diff(npre, npost)
                V(op, shape, "ro-changed:" + "+".join(d), ctype,
                  f"read-only {op} ({'raised ' + type(exc).__name__ if exc else 'returned'}) changed {d} (history {hs})",
                  {k: {"before": npre.get(k), "after": npost.get(k)} for k in d})
            oc["ro-raised" if exc else "ro-answered"] = oc.get("ro-raised" if exc else "ro-answered", 0) + 1
    if not hist:
        res["samples"].append({"history": hist, "alphabet_size": len(alpha), "first_ops": alpha[:5]})
    return res


def roots(kind, idset="std"):
    """non-initial start states (name, history), written with the identifiers of `idset`"""
    mp = OPS.IDSETS[idset]
    out = _roots_std(kind)
    if mp is None:
        return out
    return [(name, [OPS.rename_op(o, mp) for o in hist]) for name, hist in out]


def _roots_std(kind):
    """non-initial start states (name, history): the BFS from the empty graph needs 5+ calls before the first descriptor
    can exist, so the states around descriptors and stereo changes are explored from these roots as well"""
    cfg = OPS.config(kind, "quick")
    base = [["add_atom", a, "C"] for a in cfg["ids"]] + [["add_bond", a, b] for a, b in cfg["pairs"]]
    out = []
    if kind in (RG.CRG, RG.SCRG):
        (a, b), (c, d) = cfg["pairs"][0], cfg["pairs"][1]
        roles = [["add_atom", x, "C"] for x in cfg["ids"]] + [["add_bond", a, b, {"kw": {"reaction": "Change.FORMED"}}],
                                                                ["add_bond", c, d, {"kw": {"reaction": "Change.BROKEN"}}]]
        out.append(("roles", roles))
    if kind in (RG.SMG, RG.SCRG):
        t1, t2, t3, sp = cfg["adesc"]
        pb, ab = cfg["bdesc"]
        out.append(("skeleton", base))
        out.append(("stereo", base + [["set_atom_stereo", t1], ["set_bond_stereo", pb]]))
    if kind == RG.SCRG:
        out.append(("changes", base + [["set_atom_stereo_change", {"kw": {"broken": t1, "formed": t2}}],
                                       ["set_bond_stereo_change", {"kw": {"formed": pb}}]]))
        out.append(("stereo+changes", base + [["set_atom_stereo", sp], ["set_atom_stereo_change", {"kw": {"fleeting": t1}}],
                                              ["set_bond_stereo_change", {"kw": {"broken": pb, "fleeting": D3}}]]))
    return out


D3 = OPS.D("PlanarBond", (3, None, 0, 1, 2, None), 0)


def explore(ctx, kind, mode, depth, ordered, tier, max_states=None, label="", root=None, idset="std"):
    """level-synchronous BFS from the empty graph (or from the state reached by the history `root`); returns stats dict"""
    root = list(root or [])
    seen = {canon(snap(replay_history(kind, root)[0]), ordered)}
    frontier = [root]
    stats = {"kind": kind, "pass": "B-ordered" if ordered else "A-unordered", "levels": [], "fixpoint": False,
             "depth_bound": depth, "root": root, "identifiers": idset}
    d = 0
    sample_hist = None
    while frontier and d < depth:
        if ctx.left() <= 0:
            ctx.capped = True
            ctx.cap_note.append(f"{label}: budget hit before expanding depth {d + 1}")
            break
        args = [{"kind": kind, "hist": h, "mode": mode, "ordered": ordered, "tier": tier, "idset": idset} for h in frontier]
        before = ctx.items_done
        results = ctx.pmap(expand, args, chunksize=max(1, min(64, len(args) // 64)))
        complete = (ctx.items_done - before) == len(args)
        nxt = []
        for r in results:
            if not r or "harness_error" in r:
                continue
            for h, key in r.get("succ", ()):
                if key not in seen:
                    seen.add(key)
                    nxt.append(h)
        d += 1
        stats["levels"].append({"depth": d, "expanded": len(results), "new_states": len(nxt), "complete": complete})
        if nxt:
            sample_hist = nxt[-1]
        frontier = nxt
        if not complete:
            break
        if max_states and len(seen) > max_states:
            ctx.cap_note.append(f"{label}: state cap {max_states} reached at depth {d}")
            break
    if not frontier:
        stats["fixpoint"] = True
    stats["states"] = len(seen)
    stats["frontier_left"] = len(frontier)
    ctx.states += len(seen)
    if sample_hist and len(ctx.samples) < 6:
        ctx.samples.append({"class": kind, "pass": stats["pass"], "deepest_history": sample_hist})
    return stats


def deep_walk(arg):
    """one long deterministic history on a single live object (no rebuild between steps): the alphabet is cycled with
    stride a from offset b; every step is checked like a BFS transition.  Replaces the 'long random sequences' of the
    quantifier text by a fixed, enumerated family of long histories."""
    import math

    kind, a, b, L, mode, tier = arg["kind"], arg["a"], arg["b"], arg["len"], arg["mode"], arg["tier"]
    idset = arg.get("idset", "std")
    alpha = OPS.alphabet(kind, tier, idset)
    n = len(alpha)
    universe = OPS.universe(kind, tier, idset)
    res = {"evals": 0, "trans": 0, "viol": [], "outcomes": {}, "samples": [], "states": 0}
    P = "C09" if mode == "C09" else "C19"
    g, m = replay_history(kind, [])
    hist = []
    upto = arg.get("upto")

    def V(op, shape, clause, ctype, what):
        res["viol"].append({"sig": f"{P}/{SHORT[kind]}/{op[0]}/{shape}/{ctype}/deep:{clause}", "input": None, "what": what,
                            "item": dict(arg, upto=len(hist) + 1), "detail": {"history_tail": hist[-6:]}})

    seen = set()
    for k in range(L if upto is None else min(L, 10 ** 9)):
        op = alpha[(b + a * k + (k // n)) % n]
        verdict, shape = OPS.classify(m, op)
        if verdict == "skip":
            continue
        if mode == "C09" and verdict == "ill":
            continue
        if mode == "C19" and verdict == "ro" and shape not in ("absent", "absent-atom", "nobond", "self"):
            continue
        pre = snap(g)
        ctype = _ctype(pre)
        npre = norm(pre)
        exc = None
        try:
            ret = OPS.apply_real(g, op)
        except Exception as e:
            exc = e
        post = snap(g)
        npost = norm(post)
        res["trans"] += 1
        res["evals"] += 1
        res["outcomes"][verdict] = res["outcomes"].get(verdict, 0) + 1
        stop = False
        if verdict == "wf":
            OPS.apply_model(m, op)
            hist.append(op)
            if exc is not None:
                if mode == "C09":
                    V(op, shape, "raised:" + type(exc).__name__, ctype, f"well-formed {op} raised {exc!r} at step {len(hist)} of a deep history")
                stop = True
            else:
                d = diff(npost, m.observe())
                if d:
                    if mode == "C09":
                        V(op, shape, "state:" + "+".join(d), ctype, f"after {op} (step {len(hist)}) containers disagree with the model in {d}")
                    stop = True
                else:
                    inc = check_coherent(g, m, universe)
                    if inc:
                        if mode == "C09":
                            V(op, shape, inc[0][0], ctype, f"after {op} (step {len(hist)}) view {inc[0][0]} disagrees with the model")
                        stop = True
                    else:
                        n2 = norm(snap(g))
                        if n2 != npost:
                            if mode == "C09":
                                V(["views"], "any", "ro-changed:" + "+".join(diff(npost, n2)), ctype,
                                  f"reading the public views changed the graph at step {len(hist)} of a deep history")
                            stop = True
            seen.add(canon(post, False))
        elif verdict == "ill":
            if exc is None:
                V(op, shape, "accepted", ctype, f"ill-formed {op} did not raise at step {len(hist)} of a deep history")
                stop = True
            if npost != npre:
                V(op, shape, "changed:" + "+".join(diff(npre, npost)), ctype, f"rejected {op} changed the graph at step {len(hist)}")
                stop = True
        else:
            if npost != npre:
                V(op, shape, "ro-changed:" + "+".join(diff(npre, npost)), ctype, f"read-only {op} changed the graph at step {len(hist)}")
                stop = True
        if stop or (upto is not None and len(hist) >= upto):
            break
    res["states"] = len(seen)
    res["extra"] = {"deep_history_max_len": len(hist)}
    if arg["a"] == 1:
        res["samples"].append({"class": kind, "deep_history_length": len(hist), "tail": hist[-3:]})
    return res


def deep_items(kind, mode, tier):
    import math

    n = len(OPS.alphabet(kind, tier))
    strides = [a for a in range(1, 200) if math.gcd(a, n) == 1][: (12 if tier == "quick" else 40)]
    L = 600 if tier == "quick" else 3000
    out = [{"deep": True, "kind": kind, "a": a, "b": (7 * a) % n, "len": L, "mode": mode, "tier": tier} for a in strides]
    # the same walks with hash-colliding identifiers (every third stride)
    out += [dict(it, idset="colliding") for it in out[::3]]
    return out


def replay_item(item):
    """re-execute one transition (or one deep history up to the failing step) without the explorer"""
    if item.get("deep"):
        return deep_walk(item)
    return expand({"kind": item["kind"], "hist": item["hist"], "mode": item["mode"], "ordered": False,
                   "tier": item.get("tier", "quick"), "only_op": item["op"], "idset": item.get("idset", "std")})
