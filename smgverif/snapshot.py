"""Full observation of a real graph object: private containers (never through item access, so observing cannot
insert into a defaultdict), container types, and the public views.  Plain data only (DESIGN.md section 3)."""
from __future__ import annotations

KINDS = ("BROKEN", "FLEETING", "FORMED")
CLS = ("MolGraph", "StereoMolGraph", "CondensedReactionGraph", "StereoCondensedReactionGraph")


def val(v):
    """attribute value -> plain data"""
    try:
        from stereomolgraph.graphs.crg import Change

        if isinstance(v, Change):
            return "Change." + v.name
    except Exception:
        pass
    if isinstance(v, (int, str, float, bool, type(None))):
        return v
    return repr(v)


def desc(s):
    if s is None:
        return None
    return (type(s).__name__, tuple(s.atoms), s.parity)


def bkey(b):
    try:
        return tuple(sorted(b, key=lambda x: (x is None, repr(type(x)), x if isinstance(x, int) else repr(x))))
    except Exception:
        return repr(b)


def _slot(g, name):
    try:
        return getattr(g, name)
    except AttributeError:
        return None


def snap(g):
    """Raw snapshot: ordered containers, including empty / phantom entries and container types."""
    aa = _slot(g, "_atom_attrs")
    nb = _slot(g, "_neighbors")
    ba = _slot(g, "_bond_attrs")
    s = {
        "cls": type(g).__name__,
        "atoms": [(a, {k: val(v) for k, v in d.items()}) for a, d in aa.items()],
        "bonds": [(bkey(b), {k: val(v) for k, v in d.items()}) for b, d in ba.items()],
        "nbrs": [(a, sorted(n, key=repr)) for a, n in nb.items()],
        "types": {"atom_attrs": type(aa).__name__, "neighbors": type(nb).__name__, "bond_attrs": type(ba).__name__},
    }
    ast = _slot(g, "_atom_stereo")
    if ast is not None:
        bst = _slot(g, "_bond_stereo")
        s["astereo"] = [(a, desc(d)) for a, d in ast.items()]
        s["bstereo"] = [(bkey(b), desc(d)) for b, d in bst.items()]
        s["types"]["atom_stereo"] = type(ast).__name__
        s["types"]["bond_stereo"] = type(bst).__name__
    ach = _slot(g, "_atom_stereo_change")
    if ach is not None:
        bch = _slot(g, "_bond_stereo_change")
        s["achg"] = [(a, [(k.name if hasattr(k, "name") else repr(k), desc(d)) for k, d in cd.items()])
                     for a, cd in ach.items()]
        s["bchg"] = [(bkey(b), [(k.name if hasattr(k, "name") else repr(k), desc(d)) for k, d in cd.items()])
                     for b, cd in bch.items()]
        s["types"]["atom_stereo_change"] = type(ach).__name__
        s["types"]["bond_stereo_change"] = type(bch).__name__
    return s


def _srt(x):
    return sorted(x, key=repr)


def norm(s, drop_empty_changes=False):
    """Order-insensitive, comparable form of what the public views show.  An empty neighbour entry of an
    existing atom is the same as a missing one; keys naming non-existent atoms are kept (phantoms).
    Change-dict entries whose descriptor is None are dropped (the library's __missing__ answers None anyway)."""
    atoms = {a for a, _ in s["atoms"]}
    n = {
        "cls": s["cls"],
        "atoms": _srt((a, _srt(d.items())) for a, d in s["atoms"]),
        "bonds": _srt((b, _srt(d.items())) for b, d in s["bonds"]),
        "nbrs": _srt((a, tuple(v)) for a, v in s["nbrs"] if v or a not in atoms),
    }
    if "astereo" in s:
        n["astereo"] = _srt(s["astereo"])
        n["bstereo"] = _srt(s["bstereo"])
    if "achg" in s:
        for key in ("achg", "bchg"):
            ent = []
            for c, kd in s[key]:
                kd = _srt((k, d) for k, d in kd if d is not None)
                if kd or not drop_empty_changes:
                    ent.append((c, tuple(kd)))
            n[key] = _srt(ent)
    return n


def canon(s, ordered=False):
    """Deduplication key for the explorer: raw containers incl. empty/phantom entries and container types;
    insertion order only when ordered=True (pass B)."""
    f = (lambda x: list(x)) if ordered else _srt
    parts = [s["cls"], tuple(sorted(s["types"].items())),
             tuple(f((a, tuple(f(d.items()))) for a, d in s["atoms"])),
             tuple(f((b, tuple(f(d.items()))) for b, d in s["bonds"])),
             tuple(f((a, tuple(v)) for a, v in s["nbrs"]))]
    for key in ("astereo", "bstereo"):
        if key in s:
            parts.append(tuple(f(s[key])))
    for key in ("achg", "bchg"):
        if key in s:
            parts.append(tuple(f((c, tuple(f(kd))) for c, kd in s[key])))
    return repr(parts)


def diff(n1, n2):
    """names of the fields in which two normalised snapshots differ"""
    return [k for k in sorted(set(n1) | set(n2)) if n1.get(k) != n2.get(k)]


# ------------------------------------------------------------------------------------------------------
# public views
# ------------------------------------------------------------------------------------------------------

def views(g, universe):
    """Everything the public API shows, as plain data.  Every call is individually guarded: an exception is
    recorded as ('EXC', type) so that the comparison reports which view failed."""
    import numpy as np

    def G(f):
        try:
            return f()
        except Exception as e:
            return ("EXC", type(e).__name__, str(e)[:80])

    v = {}
    atoms = G(lambda: list(g.atoms))
    v["atoms"] = atoms
    v["atom_types"] = G(lambda: [int(t) for t in g.atom_types])
    v["n_atoms"] = G(lambda: (g.n_atoms, len(g)))
    v["atoms_with_attributes"] = G(lambda: {a: {k: val(x) for k, x in d.items()} for a, d in g.atoms_with_attributes.items()})
    v["bonds"] = G(lambda: [bkey(b) for b in g.bonds])
    v["bonds_with_attributes"] = G(lambda: [(bkey(b), {k: val(x) for k, x in d.items()}) for b, d in g.bonds_with_attributes.items()])
    v["neighbors"] = G(lambda: {a: sorted(n, key=repr) for a, n in g.neighbors.items()})
    if isinstance(atoms, list):
        v["bonded_to"] = {a: G(lambda a=a: sorted(g.bonded_to(a), key=repr)) for a in atoms}
        v["node_cc"] = {a: G(lambda a=a: sorted(g.node_connected_component(a), key=repr)) for a in atoms}
        v["get_atom_type"] = {a: G(lambda a=a: int(g.get_atom_type(a))) for a in atoms}
        v["get_atom_attributes"] = {a: G(lambda a=a: {k: val(x) for k, x in g.get_atom_attributes(a).items()}) for a in atoms}
    v["has_atom"] = {a: G(lambda a=a: bool(g.has_atom(a))) for a in universe}
    v["has_bond"] = {(a, b): G(lambda a=a, b=b: bool(g.has_bond(a, b))) for a in universe for b in universe if a < b}
    v["matrix"] = G(lambda: np.asarray(g.connectivity_matrix()).astype(int).tolist())
    v["components"] = G(lambda: sorted(sorted(c, key=repr) for c in g.connected_components()))
    bonds = v["bonds"]
    if isinstance(bonds, list):
        v["get_bond_attributes"] = {b: G(lambda b=b: {k: val(x) for k, x in g.get_bond_attributes(*b).items()})
                                    for b in bonds if len(b) == 2}
    if hasattr(g, "atom_stereo"):
        v["atom_stereo"] = G(lambda: {a: desc(d) for a, d in g.atom_stereo.items()})
        v["bond_stereo"] = G(lambda: {bkey(b): desc(d) for b, d in g.bond_stereo.items()})
        v["stereo"] = G(lambda: {(bkey(k) if isinstance(k, frozenset) else k): desc(d) for k, d in g.stereo.items()})
        if isinstance(atoms, list):
            v["get_atom_stereo"] = {a: G(lambda a=a: desc(g.get_atom_stereo(a))) for a in atoms}
        if isinstance(bonds, list):
            v["get_bond_stereo"] = {b: G(lambda b=b: desc(g.get_bond_stereo(b))) for b in bonds if len(b) == 2}
    if hasattr(g, "atom_stereo_changes"):
        def chg(m):
            out = {}
            for c, cd in m.items():
                kd = {k.name: desc(d) for k, d in cd.items() if d is not None}
                if kd:
                    out[bkey(c) if isinstance(c, frozenset) else c] = kd
            return out

        v["atom_stereo_changes"] = G(lambda: chg(g.atom_stereo_changes))
        v["bond_stereo_changes"] = G(lambda: chg(g.bond_stereo_changes))
        if isinstance(atoms, list):
            def gasc(a):
                r = g.get_atom_stereo_change(a)
                if r is None:
                    return None
                return {k.name: desc(d) for k, d in r.items() if d is not None} or None

            v["get_atom_stereo_change"] = {a: G(lambda a=a: gasc(a)) for a in atoms}
        if isinstance(bonds, list):
            def gbsc(b):
                r = g.get_bond_stereo_change(b)
                if r is None:
                    return None
                return {k.name: desc(d) for k, d in r.items() if d is not None} or None

            v["get_bond_stereo_change"] = {b: G(lambda b=b: gbsc(b)) for b in bonds if len(b) == 2}
    if hasattr(g, "get_formed_bonds"):
        v["formed"] = G(lambda: sorted(bkey(b) for b in g.get_formed_bonds()))
        v["broken"] = G(lambda: sorted(bkey(b) for b in g.get_broken_bonds()))
        v["fleeting"] = G(lambda: sorted(bkey(b) for b in g.get_fleeting_bonds()))
    return v
