"""Reference model of the four graph classes: dicts, sets and tuples only (DESIGN.md 4.3).

Descriptors are plain tuples (class name, atoms, parity); bond roles live in the bond attribute
'reaction' as the strings 'Change.FORMED' / 'Change.BROKEN' / 'Change.FLEETING'.
"""
from __future__ import annotations

import copy as _copy

from . import refstereo as RS
from .elements import Z, is_element

MG, SMG, CRG, SCRG = "MolGraph", "StereoMolGraph", "CondensedReactionGraph", "StereoCondensedReactionGraph"
STEREO = (SMG, SCRG)
REACTION = (CRG, SCRG)
KINDS = ("BROKEN", "FLEETING", "FORMED")
ROLES = ("Change.FORMED", "Change.BROKEN", "Change.FLEETING")


def is_role(v):
    return v in ROLES


def B(a, b):
    return frozenset((a, b))


class RefGraph:
    def __init__(self, kind):
        self.kind = kind
        self.atoms = {}    # id -> attrs (atom_type: int)
        self.bonds = {}    # frozenset -> attrs
        self.astereo = {}  # centre -> desc
        self.bstereo = {}  # frozenset -> desc
        self.achg = {}     # centre -> {kind: desc}
        self.bchg = {}     # frozenset -> {kind: desc}

    def copy(self):
        return _copy.deepcopy(self)

    # ---- derived -----------------------------------------------------------------------------
    def nbrs(self, a):
        return {next(iter(b - {a})) for b in self.bonds if a in b and len(b) == 2}

    def components(self):
        parent = {a: a for a in self.atoms}

        def find(x):
            while parent[x] != x:
                parent[x] = parent[parent[x]]
                x = parent[x]
            return x

        for b in self.bonds:
            if len(b) == 2:
                x, y = tuple(b)
                parent[find(x)] = find(y)
        comps = {}
        for a in self.atoms:
            comps.setdefault(find(a), set()).add(a)
        return list(comps.values())

    def role(self, b):
        return self.bonds[b].get("reaction")

    # ---- mutators (well-formedness in classify) ------------------------------------------------
    def add_atom(self, a, el, **kw):
        self.atoms[a] = {"atom_type": Z[el], **kw}

    def remove_atom(self, a):
        del self.atoms[a]
        for b in [b for b in self.bonds if a in b]:
            del self.bonds[b]
        for c in [c for c, d in self.astereo.items() if a in d[1] or c == a]:
            del self.astereo[c]
        for c in [c for c, d in self.bstereo.items() if a in d[1] or a in c]:
            del self.bstereo[c]
        for store in (self.achg, self.bchg):
            for c in list(store):
                for k in [k for k, d in store[c].items() if a in d[1]]:
                    del store[c][k]
                centre_gone = (c == a) if not isinstance(c, frozenset) else (a in c)
                if centre_gone or not store[c]:
                    del store[c]

    def add_bond(self, a, b, **kw):
        self.bonds[B(a, b)] = dict(kw)

    def remove_bond(self, a, b):
        del self.bonds[B(a, b)]

    def set_atom_attribute(self, a, k, v):
        self.atoms[a][k] = Z[v] if k == "atom_type" else v

    def delete_atom_attribute(self, a, k):
        del self.atoms[a][k]

    def set_bond_attribute(self, a, b, k, v):
        self.bonds[B(a, b)][k] = v

    def delete_bond_attribute(self, a, b, k):
        del self.bonds[B(a, b)][k]

    def set_atom_stereo(self, d):
        self.astereo[RS.centre_of(d)] = d

    def set_bond_stereo(self, d):
        self.bstereo[RS.centre_of(d)] = d

    def delete_atom_stereo(self, a):
        del self.astereo[a]

    def delete_bond_stereo(self, b):
        del self.bstereo[frozenset(b)]

    def set_atom_stereo_change(self, **kinds):
        ds = {k.upper(): d for k, d in kinds.items() if d is not None}
        c = RS.centre_of(next(iter(ds.values())))
        self.achg[c] = ds

    def set_bond_stereo_change(self, **kinds):
        ds = {k.upper(): d for k, d in kinds.items() if d is not None}
        c = RS.centre_of(next(iter(ds.values())))
        self.bchg[c] = ds

    def delete_atom_stereo_change(self, a, kind=None):
        if kind is None:
            del self.achg[a]
        else:
            del self.achg[a][kind]

    def delete_bond_stereo_change(self, b, kind=None):
        b = frozenset(b)
        if kind is None:
            del self.bchg[b]
        else:
            del self.bchg[b][kind]

    def relabel(self, m):
        f = lambda x: m.get(x, x)  # noqa: E731
        self.atoms = {f(a): d for a, d in self.atoms.items()}
        self.bonds = {frozenset(f(x) for x in b): d for b, d in self.bonds.items()}
        self.astereo = {f(c): RS.rename(d, m) for c, d in self.astereo.items()}
        self.bstereo = {frozenset(f(x) for x in c): RS.rename(d, m) for c, d in self.bstereo.items()}
        # an entry emptied by delete_*_stereo_change(x, kind) does not survive relabelling in the library; harmless,
        # the model follows it (DESIGN.md 4.3)
        self.achg = {f(c): {k: RS.rename(d, m) for k, d in kd.items()} for c, kd in self.achg.items() if kd}
        self.bchg = {frozenset(f(x) for x in c): {k: RS.rename(d, m) for k, d in kd.items()}
                     for c, kd in self.bchg.items() if kd}
        return self

    def mentioned(self):
        s = set(self.atoms)
        for d in list(self.astereo.values()) + list(self.bstereo.values()):
            s.update(RS.atoms_of(d))
        for store in (self.achg, self.bchg):
            for kd in store.values():
                for d in kd.values():
                    s.update(RS.atoms_of(d))
        return s

    # ---- derived graphs (used by C06, C08, C10, C11, C17) --------------------------------------------
    def subgraph(self, S):
        S = set(S)
        g = RefGraph(self.kind)
        g.atoms = {a: dict(d) for a, d in self.atoms.items() if a in S}
        g.bonds = {b: dict(d) for b, d in self.bonds.items() if b <= S}
        g.astereo = {c: d for c, d in self.astereo.items() if set(RS.atoms_of(d)) <= S and c in S}
        g.bstereo = {c: d for c, d in self.bstereo.items() if set(RS.atoms_of(d)) <= S}
        for src, dst in ((self.achg, g.achg), (self.bchg, g.bchg)):
            for c, kd in src.items():
                kk = {k: d for k, d in kd.items() if set(RS.atoms_of(d)) <= S}
                if kk:
                    dst[c] = kk
        return g

    @staticmethod
    def compose(kind, graphs):
        g = RefGraph(kind)
        for h in graphs:
            for a, d in h.atoms.items():
                g.atoms[a] = dict(d)
            for b, d in h.bonds.items():
                g.bonds[b] = dict(d)
            if kind in STEREO:
                g.astereo.update(h.astereo)
                g.bstereo.update(h.bstereo)
            if kind == SCRG:
                for c, kd in h.achg.items():
                    g.achg[c] = dict(kd)
                for c, kd in h.bchg.items():
                    g.bchg[c] = dict(kd)
        return g

    def mirror(self):
        g = self.copy()
        g.astereo = {c: RS.mirror(d) for c, d in self.astereo.items()}
        g.bstereo = {c: RS.mirror(d) for c, d in self.bstereo.items()}
        g.achg = {c: {k: RS.mirror(d) for k, d in kd.items()} for c, kd in self.achg.items()}
        g.bchg = {c: {k: RS.mirror(d) for k, d in kd.items()} for c, kd in self.bchg.items()}
        return g

    def side(self, which):
        """reactant ('R'), product ('P') or transition state ('TS') of a reaction graph, as a (Stereo)MolGraph model"""
        g = RefGraph(SMG if self.kind == SCRG else MG)
        g.atoms = {a: dict(d) for a, d in self.atoms.items()}
        drop = {"R": ("Change.FORMED", "Change.FLEETING"), "P": ("Change.BROKEN", "Change.FLEETING"), "TS": ()}[which]
        for b, d in self.bonds.items():
            if d.get("reaction") in drop:
                continue
            dd = dict(d)
            dd.pop("reaction", None)
            g.bonds[b] = dd
        if self.kind == SCRG:
            g.astereo = dict(self.astereo)
            g.bstereo = dict(self.bstereo)
            k = {"R": "BROKEN", "P": "FORMED", "TS": "FLEETING"}[which]
            for c, kd in self.achg.items():
                if k in kd:
                    g.astereo[c] = kd[k]
            for c, kd in self.bchg.items():
                if k in kd:
                    g.bstereo[c] = kd[k]
        return g

    def reverse(self):
        g = self.copy()
        sw = {"Change.FORMED": "Change.BROKEN", "Change.BROKEN": "Change.FORMED"}
        for b, d in g.bonds.items():
            if d.get("reaction") in sw:
                d["reaction"] = sw[d["reaction"]]
        sk = {"FORMED": "BROKEN", "BROKEN": "FORMED", "FLEETING": "FLEETING"}
        g.achg = {c: {sk[k]: d for k, d in kd.items()} for c, kd in self.achg.items()}
        g.bchg = {c: {sk[k]: d for k, d in kd.items()} for c, kd in self.bchg.items()}
        return g

    # ---- observation (same shape as snapshot.norm of the real object) ------------------------------------
    def observe(self):
        from ..snapshot import bkey, _srt

        n = {
            "cls": self.kind,
            "atoms": _srt((a, _srt(d.items())) for a, d in self.atoms.items()),
            "bonds": _srt((bkey(b), _srt(d.items())) for b, d in self.bonds.items()),
            "nbrs": _srt((a, tuple(sorted(self.nbrs(a), key=repr))) for a in self.atoms if self.nbrs(a)),
        }
        if self.kind in STEREO:
            n["astereo"] = _srt(self.astereo.items())
            n["bstereo"] = _srt((bkey(c), d) for c, d in self.bstereo.items())
        if self.kind == SCRG:
            n["achg"] = _srt((c, tuple(_srt(kd.items()))) for c, kd in self.achg.items())
            n["bchg"] = _srt((bkey(c), tuple(_srt(kd.items()))) for c, kd in self.bchg.items())
        return n

    def views(self, universe, atoms_order, bonds_order):
        """the public views as the model defines them, in the shape of snapshot.views"""
        from ..snapshot import bkey

        v = {}
        v["atoms"] = list(atoms_order)
        v["atom_types"] = [self.atoms[a]["atom_type"] for a in atoms_order]
        v["n_atoms"] = (len(self.atoms), len(self.atoms))
        v["atoms_with_attributes"] = {a: dict(d) for a, d in self.atoms.items()}
        v["bonds"] = list(bonds_order)
        v["bonds_with_attributes"] = [(b, dict(self.bonds[frozenset(b)])) for b in bonds_order]
        v["neighbors"] = {a: sorted(self.nbrs(a), key=repr) for a in self.atoms if self.nbrs(a)}
        v["bonded_to"] = {a: sorted(self.nbrs(a), key=repr) for a in atoms_order}
        comp = {}
        for c in self.components():
            for a in c:
                comp[a] = sorted(c, key=repr)
        v["node_cc"] = {a: comp[a] for a in atoms_order}
        v["get_atom_type"] = {a: self.atoms[a]["atom_type"] for a in atoms_order}
        v["get_atom_attributes"] = {a: dict(self.atoms[a]) for a in atoms_order}
        v["has_atom"] = {a: a in self.atoms for a in universe}
        v["has_bond"] = {(a, b): B(a, b) in self.bonds for a in universe for b in universe if a < b}
        idx = {a: i for i, a in enumerate(atoms_order)}
        mat = [[0] * len(idx) for _ in idx]
        for b in self.bonds:
            if len(b) == 2:
                x, y = tuple(b)
                mat[idx[x]][idx[y]] = 1
                mat[idx[y]][idx[x]] = 1
        v["matrix"] = mat
        v["components"] = sorted(sorted(c, key=repr) for c in self.components())
        v["get_bond_attributes"] = {b: dict(self.bonds[frozenset(b)]) for b in bonds_order if len(b) == 2}
        if self.kind in STEREO:
            v["atom_stereo"] = dict(self.astereo)
            v["bond_stereo"] = {bkey(c): d for c, d in self.bstereo.items()}
            v["stereo"] = {**v["atom_stereo"], **v["bond_stereo"]}
            v["get_atom_stereo"] = {a: self.astereo.get(a) for a in atoms_order}
            v["get_bond_stereo"] = {b: self.bstereo.get(frozenset(b)) for b in bonds_order if len(b) == 2}
        if self.kind == SCRG:
            v["atom_stereo_changes"] = {c: dict(kd) for c, kd in self.achg.items() if kd}
            v["bond_stereo_changes"] = {bkey(c): dict(kd) for c, kd in self.bchg.items() if kd}
            v["get_atom_stereo_change"] = {a: (dict(self.achg[a]) if self.achg.get(a) else None) for a in atoms_order}
            v["get_bond_stereo_change"] = {b: (dict(self.bchg[frozenset(b)]) if self.bchg.get(frozenset(b)) else None)
                                           for b in bonds_order if len(b) == 2}
        if self.kind in REACTION:
            for name, r in (("formed", "Change.FORMED"), ("broken", "Change.BROKEN"), ("fleeting", "Change.FLEETING")):
                v[name] = sorted(bkey(b) for b, d in self.bonds.items() if d.get("reaction") == r)
        return v
