"""Geometric symmetry oracle for the six stereodescriptor classes (DESIGN.md 4.1).

Nothing here reads the library's PERMUTATION_GROUP / inversion tables.  For each class an idealised
vertex figure is written down as coordinates; every permutation of its positions is classified by
testing whether it is an isometry of the figure and by the sign of the determinant of the induced
orthogonal map:  ROT[cls] (proper) and IMP[cls] (improper).  Planar figures have ROT == IMP.

A descriptor is plain data: (cls_name, atoms_tuple, parity)   parity in {1,-1,0,None}.
"""
from __future__ import annotations

import itertools
from functools import lru_cache

import numpy as np

S3 = 3 ** 0.5

# position index -> coordinates.  Position 0 of the atom-centred classes is the centre.
FIGURES = {
    # regular tetrahedron
    "Tetrahedral": [(0, 0, 0), (1, 1, 1), (1, -1, -1), (-1, 1, -1), (-1, -1, 1)],
    # square, ring order 1-2-3-4
    "SquarePlanar": [(0, 0, 0), (1, 0, 0), (0, 1, 0), (-1, 0, 0), (0, -1, 0)],
    # D3h bipyramid: axial 1,2 ; equatorial 3,4,5
    "TrigonalBipyramidal": [(0, 0, 0), (0, 0, 1.3), (0, 0, -1.3), (1, 0, 0), (-0.5, S3 / 2, 0), (-0.5, -S3 / 2, 0)],
    # octahedron: trans pairs (1,2) (3,5) (4,6), ring order 3-4-5-6
    "Octahedral": [(0, 0, 0), (0, 0, 1), (0, 0, -1), (1, 0, 0), (0, 1, 0), (-1, 0, 0), (0, -1, 0)],
    # planar X2C=CY2 : 0,1 on atom 2 ; 4,5 on atom 3 ; 0 cis to 4
    "PlanarBond": [(-1.2, 1, 0), (-1.2, -1, 0), (-0.6, 0, 0), (0.6, 0, 0), (1.2, 1, 0), (1.2, -1, 0)],
    # the same figure twisted by 90 degrees about the 2-3 axis
    "AtropBond": [(-1.2, 1, 0), (-1.2, -1, 0), (-0.6, 0, 0), (0.6, 0, 0), (1.2, 0, 1), (1.2, 0, -1)],
}
CLASSES = tuple(FIGURES)
ATOM_CLASSES = ("Tetrahedral", "SquarePlanar", "TrigonalBipyramidal", "Octahedral")
BOND_CLASSES = ("PlanarBond", "AtropBond")
PARITIES = {  # parity domain of each class (besides None)
    "Tetrahedral": (1, -1), "SquarePlanar": (0,), "TrigonalBipyramidal": (1, -1),
    "Octahedral": (1, -1), "PlanarBond": (0,), "AtropBond": (1, -1),
}
NPOS = {c: len(v) for c, v in FIGURES.items()}


def _classify(cls):
    V = np.array(FIGURES[cls], dtype=float)
    n = len(V)
    D = np.linalg.norm(V[:, None, :] - V[None, :, :], axis=-1)
    planar = np.linalg.matrix_rank(V - V.mean(axis=0), tol=1e-9) <= 2
    rot, imp = set(), set()
    for p in itertools.permutations(range(n)):
        P = list(p)
        if not np.allclose(D[np.ix_(P, P)], D, atol=1e-9):
            continue
        # isometry v_i -> v_p(i); find the orthogonal map by least squares on centred coordinates
        A = V - V.mean(axis=0)
        B = V[P] - V[P].mean(axis=0)
        if planar:
            # reflection in the plane fixes every vertex: each isometry is realised both properly
            # and improperly
            rot.add(p)
            imp.add(p)
            continue
        M, *_ = np.linalg.lstsq(A, B, rcond=None)
        assert np.allclose(A @ M, B, atol=1e-8)
        det = np.linalg.det(M)
        assert abs(abs(det) - 1) < 1e-6, (cls, p, det)
        (rot if det > 0 else imp).add(p)
    return frozenset(rot), frozenset(imp)


@lru_cache(None)
def groups(cls):
    """(ROT, IMP) as frozensets of permutations of range(NPOS[cls])."""
    return _classify(cls)


def ROT(cls):
    return groups(cls)[0]


def IMP(cls):
    return groups(cls)[1]


def chiral_class(cls):
    r, i = groups(cls)
    return bool(i - r) and r != i


def apply(t, p):
    """t o p : position i of the result holds the atom that was at position p[i]."""
    return tuple(t[i] for i in p)


def same(d1, d2):
    """Spatial identity of two descriptors with specified parity (statement of C04)."""
    c1, t1, p1 = d1
    c2, t2, p2 = d2
    if c1 != c2 or len(t1) != len(t2):
        return False
    assert p1 is not None and p2 is not None
    rot, imp = groups(c1)
    if p1 == p2:
        if any(apply(t1, p) == tuple(t2) for p in rot):
            return True
    if p1 == -p2 and p1 != 0:
        if any(apply(t1, p) == tuple(t2) for p in imp):
            return True
    return False


def equal(d1, d2):
    """Descriptor equality including the unspecified-parity rule of C04: a descriptor with parity None
    equals every descriptor (of its class) over the same atoms."""
    c1, t1, p1 = d1
    c2, t2, p2 = d2
    if p1 is None or p2 is None:
        # literally as C04 states it: 'a descriptor with unspecified parity equals every descriptor over the
        # same atoms' - the class is not compared (the library does not compare it either; demanding it would
        # ask more than the property says)
        # 'the same atoms' is read as the same SET (a repeated lone-pair placeholder counts once): the statement does not
        # say more, and the library compares sets
        return set(t1) == set(t2)
    if c1 != c2:
        return False
    return same(d1, d2)


def mirror(d):
    """The mirror image of a descriptor, as (cls, atoms, parity) with the atoms untouched."""
    c, t, p = d
    if p is None or p == 0:
        return d
    return (c, tuple(t), -p)


def is_chiral_desc(d):
    c, t, p = d
    return p in (1, -1)


def _key(x):
    return (0, 0) if x is None else (1, x)


@lru_cache(200000)
def canon(d):
    """Canonical representative: parity -1 is normalised to +1 through an improper element, then the
    lexicographically smallest ordering over ROT is taken.  None placeholders sort first."""
    c, t, p = d
    t = tuple(t)
    if p is None:
        return (c, tuple(sorted(t, key=_key)), None)
    rot, imp = groups(c)
    if p == -1:
        m = min(imp - rot) if (imp - rot) else None
        if m is not None:
            t = apply(t, m)
            p = 1
    best = min((apply(t, q) for q in rot), key=lambda s: tuple(_key(x) for x in s))
    return (c, best, p)


def rename(d, m):
    c, t, p = d
    return (c, tuple(None if a is None else m.get(a, a) for a in t), p)


def atoms_of(d):
    return tuple(a for a in d[1] if a is not None)


def centre_of(d):
    """Centre key: atom id for atom-centred classes, frozenset bond for bond classes."""
    c, t, p = d
    if c in ATOM_CLASSES:
        return t[0]
    return frozenset((t[2], t[3]))


def isomers(cls, atoms):
    """All pairwise spatially distinct fully specified descriptors of class cls over the given centre/ligand
    tuple (centre(s) kept in place): representatives of the orbits of ROT on (orderings x parities)."""
    n = NPOS[cls]
    atoms = tuple(atoms)
    assert len(atoms) == n
    if cls in ATOM_CLASSES:
        free = list(range(1, n))
    else:
        free = [0, 1, 4, 5]
    seen = {}
    for perm in itertools.permutations(free):
        idx = list(range(n))
        for a, b in zip(free, perm):
            idx[a] = b
        t = tuple(atoms[i] for i in idx)
        if cls in BOND_CLASSES:
            # substituents stay on their own end of the bond
            if {t[0], t[1]} != {atoms[0], atoms[1]}:
                continue
        for par in PARITIES[cls]:
            k = canon((cls, t, par))
            seen.setdefault(k, (cls, t, par))
    return sorted(seen.values(), key=repr)
