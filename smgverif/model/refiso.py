"""Brute-force / backtracking isomorphism on reference graphs (DESIGN.md 4.2).  Nothing from the library's
color_refine.py or isomorphism.py is used.

'structure preserving bijection' literally: elements (or caller labels), the bond set, bond roles (optional),
descriptors up to their symmetry via refstereo (optional) and stereo changes kind by kind (optional).
"""
from __future__ import annotations

import itertools

from . import refstereo as RS


def _label(g, labels, a):
    if labels is None:
        return g.atoms[a]["atom_type"]
    return labels[a]


def _stereo_ok(g1, g2, f, stereo, changes):
    def mapped_eq(d1, d2):
        return RS.equal(RS.rename(d1, f), d2)

    if stereo:
        if {f[c] for c in g1.astereo} != set(g2.astereo):
            return False
        for c, d in g1.astereo.items():
            if not mapped_eq(d, g2.astereo[f[c]]):
                return False
        if {frozenset(f[x] for x in c) for c in g1.bstereo} != set(g2.bstereo):
            return False
        for c, d in g1.bstereo.items():
            if not mapped_eq(d, g2.bstereo[frozenset(f[x] for x in c)]):
                return False
    if changes:
        a1 = {c: kd for c, kd in g1.achg.items() if kd}
        a2 = {c: kd for c, kd in g2.achg.items() if kd}
        if {f[c] for c in a1} != set(a2):
            return False
        for c, kd in a1.items():
            kd2 = a2[f[c]]
            if set(kd) != set(kd2):
                return False
            for k, d in kd.items():
                if not mapped_eq(d, kd2[k]):
                    return False
        b1 = {c: kd for c, kd in g1.bchg.items() if kd}
        b2 = {c: kd for c, kd in g2.bchg.items() if kd}
        if {frozenset(f[x] for x in c) for c in b1} != set(b2):
            return False
        for c, kd in b1.items():
            kd2 = b2[frozenset(f[x] for x in c)]
            if set(kd) != set(kd2):
                return False
            for k, d in kd.items():
                if not mapped_eq(d, kd2[k]):
                    return False
    return True


def isomorphisms(g1, g2, roles=True, stereo=True, changes=True, labels=None):
    """all bijections g1.atoms -> g2.atoms preserving labels, bonds (+roles) (+descriptors) (+changes).
    labels: None (elements) or a pair of dicts atom->label."""
    A1 = list(g1.atoms)
    A2 = list(g2.atoms)
    if len(A1) != len(A2) or len(g1.bonds) != len(g2.bonds):
        return
    l1 = {a: _label(g1, labels[0] if labels else None, a) for a in A1}
    l2 = {a: _label(g2, labels[1] if labels else None, a) for a in A2}
    n1 = {a: g1.nbrs(a) for a in A1}
    n2 = {a: g2.nbrs(a) for a in A2}
    if sorted((repr(l1[a]), len(n1[a])) for a in A1) != sorted((repr(l2[a]), len(n2[a])) for a in A2):
        return
    # order: connected-first to prune early
    order = []
    seen = set()
    for s in sorted(A1, key=lambda a: -len(n1[a])):
        if s in seen:
            continue
        stack = [s]
        while stack:
            x = stack.pop()
            if x in seen:
                continue
            seen.add(x)
            order.append(x)
            stack.extend(sorted(n1[x] - seen, key=repr))
    f = {}
    used = set()

    def rec(i):
        if i == len(order):
            ff = dict(f)
            ff[None] = None
            if roles:
                for b, d in g1.bonds.items():
                    if d.get("reaction") != g2.bonds[frozenset(ff[x] for x in b)].get("reaction"):
                        return
            if _stereo_ok(g1, g2, ff, stereo, changes):
                yield dict(f)
            return
        a = order[i]
        for b in A2:
            if b in used or l2[b] != l1[a] or len(n2[b]) != len(n1[a]):
                continue
            ok = True
            for x in n1[a]:
                if x in f and f[x] not in n2[b]:
                    ok = False
                    break
            if not ok:
                continue
            # non-adjacency must be preserved too (bond counts are equal, so adjacency preservation suffices
            # for a bijection, but check the mapped-neighbour count to prune)
            if sum(1 for x in n1[a] if x in f) != sum(1 for y in n2[b] if y in used):
                continue
            f[a] = b
            used.add(b)
            yield from rec(i + 1)
            del f[a]
            used.discard(b)

    yield from rec(0)


def isomorphic(g1, g2, **kw):
    for _ in isomorphisms(g1, g2, **kw):
        return True
    return False


def brute_isomorphisms(g1, g2, roles=True, stereo=True, changes=True):
    """n! enumeration (self-test of the backtracking search)"""
    A1, A2 = list(g1.atoms), list(g2.atoms)
    if len(A1) != len(A2):
        return
    for perm in itertools.permutations(A2):
        f = dict(zip(A1, perm))
        if any(g1.atoms[a]["atom_type"] != g2.atoms[f[a]]["atom_type"] for a in A1):
            continue
        if {frozenset(f[x] for x in b) for b in g1.bonds} != set(g2.bonds):
            continue
        ff = dict(f)
        ff[None] = None
        if roles and any(d.get("reaction") != g2.bonds[frozenset(f[x] for x in b)].get("reaction")
                         for b, d in g1.bonds.items()):
            continue
        if _stereo_ok(g1, g2, ff, stereo, changes):
            yield f


def invariant(g):
    """cheap isomorphism invariant used to bucket graphs before canonical forms are compared"""
    deg = {a: len(g.nbrs(a)) for a in g.atoms}
    at = sorted((g.atoms[a]["atom_type"], deg[a],
                 tuple(sorted((g.atoms[x]["atom_type"], deg[x], repr(g.bonds[frozenset((a, x))].get("reaction")))
                              for x in g.nbrs(a))))
                for a in g.atoms)
    st = sorted((d[0], d[2]) for d in list(g.astereo.values()) + list(g.bstereo.values()))
    ch = sorted((k, d[0], d[2]) for s in (g.achg, g.bchg) for kd in s.values() for k, d in kd.items())
    return repr((g.kind, at, len(g.bonds), st, ch))


def classes(graphs, **kw):
    """partition a list of reference graphs into isomorphism classes; returns list of lists of indices"""
    buckets = {}
    for i, g in enumerate(graphs):
        buckets.setdefault(invariant(g), []).append(i)
    out = []
    for idx in buckets.values():
        reps = []
        for i in idx:
            for cl in reps:
                if isomorphic(graphs[cl[0]], graphs[i], **kw):
                    cl.append(i)
                    break
            else:
                reps.append([i])
        out.extend(reps)
    return out
