"""Element symbols (data only; independent copy so that the reference model does not import the library)."""
_S = ("H He Li Be B C N O F Ne Na Mg Al Si P S Cl Ar K Ca Sc Ti V Cr Mn Fe Co Ni Cu Zn Ga Ge As Se Br Kr Rb Sr Y Zr "
      "Nb Mo Tc Ru Rh Pd Ag Cd In Sn Sb Te I Xe Cs Ba La Ce Pr Nd Pm Sm Eu Gd Tb Dy Ho Er Tm Yb Lu Hf Ta W Re Os Ir "
      "Pt Au Hg Tl Pb Bi Po At Rn Fr Ra Ac Th Pa U Np Pu Am Cm Bk Cf Es Fm Md No Lr Rf Db Sg Bh Hs Mt Ds Rg Cn Nh Fl "
      "Mc Lv Ts Og").split()
assert len(_S) == 118
Z = {}
for i, s in enumerate(_S, 1):
    Z[s] = i
    Z[i] = i
    Z[s.upper()] = i
    Z[s.lower()] = i
SYM = {i: s for i, s in enumerate(_S, 1)}


def is_element(x):
    try:
        return x in Z
    except TypeError:
        return False
