"""known_findings.json loader / matcher.  Read-only at run time (DESIGN.md section 6).

Entry: {"property": "C04", "id": "KF-C04-1", "status": "known"|"fixed", "what": "...",
        "match": {"sig": "<exact violation signature>", "inputs": [optional explicit list of failing inputs]},
        "commit": "<sha, for fixed>"}
A 'fixed' entry suppresses nothing.  Matching is by exact signature (and, when given, by input id);
there is no wildcard on the property.
"""
import json
import os

PATH = os.path.join(os.path.dirname(os.path.dirname(os.path.abspath(__file__))), "known_findings.json")


def load(prop):
    if not os.path.exists(PATH):
        return []
    with open(PATH) as f:
        data = json.load(f)
    return [e for e in data.get("findings", []) if e.get("property") == prop and e.get("status") == "known"]
