"""Bounded, deterministic, complete generators of reference graphs (specs) for the four classes, and the builder
that turns a spec into a real object through the public API (DESIGN.md 4.4).  A spec IS a RefGraph."""
from __future__ import annotations

import itertools
from functools import lru_cache

from ..model import refgraph as RG
from ..model import refiso as RI
from ..model import refstereo as RS
from ..model.elements import SYM, Z

MG, SMG, CRG, SCRG = RG.MG, RG.SMG, RG.CRG, RG.SCRG


# ----------------------------------------------------------------------------------------------------------
# building real objects
# ----------------------------------------------------------------------------------------------------------

def real_cls(kind):
    import stereomolgraph as smg

    return getattr(smg, kind)


def rdesc(d, np_values=False):
    import stereomolgraph.stereodescriptors as sd

    if np_values:
        # identifiers as they come out of a numpy index array, the parity as coords.handedness() returns it
        import numpy as np

        return getattr(sd, d[0])(tuple(a if a is None else np.int64(a) for a in d[1]), d[2] if d[2] is None else np.int8(d[2]))
    return getattr(sd, d[0])(tuple(d[1]), d[2])


def rattrs(d):
    from stereomolgraph.graphs.crg import Change

    out = {}
    for k, v in d.items():
        if isinstance(v, str) and v.startswith("Change."):
            v = Change[v.split(".")[1]]
        out[k] = v
    return out


def build(m, atom_order=None, bond_order=None, kind=None, stereo_order=None, symbols=True, np_values=False):
    """real object of class m.kind (or kind) built through add_atom / add_bond / set_* only"""
    kind = kind or m.kind
    g = real_cls(kind)()
    for a in (atom_order if atom_order is not None else list(m.atoms)):
        at = dict(m.atoms[a])
        el = at.pop("atom_type")
        g.add_atom(a, SYM[el] if symbols else el, **at)
    for b in (bond_order if bond_order is not None else list(m.bonds)):
        b = frozenset(b)
        x, y = sorted(b, key=repr)
        attrs = rattrs(m.bonds[b])
        if kind in (MG, SMG):
            attrs.pop("reaction", None)
        g.add_bond(x, y, **attrs)
    if kind in (SMG, SCRG):
        sts = [("a", c) for c in m.astereo] + [("b", c) for c in m.bstereo]
        if stereo_order is not None:
            sts = [sts[i] for i in stereo_order]
        for t, c in sts:
            if t == "a":
                g.set_atom_stereo(rdesc(m.astereo[c], np_values))
            else:
                g.set_bond_stereo(rdesc(m.bstereo[c], np_values))
    if kind == SCRG:
        for c, kd in m.achg.items():
            if kd:
                g.set_atom_stereo_change(**{k.lower(): rdesc(d, np_values) for k, d in kd.items()})
        for c, kd in m.bchg.items():
            if kd:
                g.set_bond_stereo_change(**{k.lower(): rdesc(d, np_values) for k, d in kd.items()})
    return g


def from_real(g):
    """reference graph read off a real object's private containers (used by differential checks)"""
    from ..snapshot import snap

    s = snap(g)
    m = RG.RefGraph(s["cls"])
    for a, d in s["atoms"]:
        m.atoms[a] = dict(d)
    for b, d in s["bonds"]:
        m.bonds[frozenset(b)] = dict(d)
    for a, d in s.get("astereo", ()):
        m.astereo[a] = d
    for b, d in s.get("bstereo", ()):
        m.bstereo[frozenset(b)] = d
    for a, kd in s.get("achg", ()):
        kk = {k: d for k, d in kd if d is not None}
        if kk:
            m.achg[a] = kk
    for b, kd in s.get("bchg", ()):
        kk = {k: d for k, d in kd if d is not None}
        if kk:
            m.bchg[frozenset(b)] = kk
    return m


def plain(m):
    """the same reference graph with every descriptor value as a plain Python int / None (after numpy-typed input)"""
    def pd(d):
        return (d[0], tuple(None if a is None else int(a) for a in d[1]), None if d[2] is None else int(d[2]))

    m.astereo = {c: pd(d) for c, d in m.astereo.items()}
    m.bstereo = {c: pd(d) for c, d in m.bstereo.items()}
    m.achg = {c: {k: pd(d) for k, d in kd.items()} for c, kd in m.achg.items()}
    m.bchg = {c: {k: pd(d) for k, d in kd.items()} for c, kd in m.bchg.items()}
    return m


def describe(m):
    """short printable form of a spec"""
    s = {"cls": m.kind,
         "atoms": [[a, SYM.get(d["atom_type"], d["atom_type"])] + ([{k: v for k, v in d.items() if k != "atom_type"}] if len(d) > 1 else [])
                   for a, d in m.atoms.items()],
         "bonds": [[*sorted(b, key=repr)] + ([dict(d)] if d else []) for b, d in m.bonds.items()]}
    if m.astereo or m.bstereo:
        s["stereo"] = [list(d) for d in list(m.astereo.values()) + list(m.bstereo.values())]
    if m.achg or m.bchg:
        s["changes"] = [[k, list(d)] for st in (m.achg, m.bchg) for kd in st.values() for k, d in kd.items()]
    return s


def key(m):
    """stable identifier of a labelled spec (used as 'input' id in violation records / known findings)"""
    o = m.observe()
    return repr([o[k] for k in sorted(o)])


# ----------------------------------------------------------------------------------------------------------
# generators
# ----------------------------------------------------------------------------------------------------------

def mk(kind, atoms, bonds=(), astereo=(), bstereo=(), achg=None, bchg=None):
    """atoms: iterable of (id, element symbol); bonds: iterable of (a, b) or (a, b, role)"""
    m = RG.RefGraph(kind)
    for a, el in atoms:
        m.atoms[a] = {"atom_type": Z[el]}
    for b in bonds:
        d = {}
        if len(b) > 2 and b[2] is not None:
            d["reaction"] = b[2] if b[2].startswith("Change.") else "Change." + b[2]
        m.bonds[frozenset(b[:2])] = d
    for d in astereo:
        m.astereo[RS.centre_of(d)] = d
    for d in bstereo:
        m.bstereo[RS.centre_of(d)] = d
    for c, kd in (achg or {}).items():
        m.achg[c] = dict(kd)
    for c, kd in (bchg or {}).items():
        m.bchg[frozenset(c)] = dict(kd)
    return m


def mg_labelled(n, elements=("C", "H"), kind=MG):
    """every labelled graph on ids 0..n-1"""
    pairs = list(itertools.combinations(range(n), 2))
    out = []
    for els in itertools.product(elements, repeat=n):
        for mask in range(1 << len(pairs)):
            bonds = [p for i, p in enumerate(pairs) if mask >> i & 1]
            out.append(mk(kind, list(enumerate(els)), bonds))
    return out


def crg_labelled(n, elements=("C", "H"), kind=CRG, max_bonds=None):
    pairs = list(itertools.combinations(range(n), 2))
    roles = (None, "ABSENT", "FORMED", "BROKEN", "FLEETING")
    out = []
    for els in itertools.product(elements, repeat=n):
        for rs in itertools.product(roles, repeat=len(pairs)):
            bonds = [(p[0], p[1], r) for p, r in zip(pairs, rs) if r != "ABSENT"]
            if max_bonds is not None and len(bonds) > max_bonds:
                continue
            out.append(mk(kind, list(enumerate(els)), bonds))
    return out


def reps(graphs, **kw):
    """one representative per isomorphism class (first in generation order)"""
    cl = RI.classes(graphs, **kw)
    return [graphs[c[0]] for c in sorted(cl, key=lambda c: c[0])]


@lru_cache(None)
def MG_reps(nmax=4, elements=("C", "H", "O")):
    out = []
    for n in range(0, nmax + 1):
        out.extend(reps(mg_labelled(n, elements)))
    return out


@lru_cache(None)
def MG5_reps(elements=("C", "H")):
    return reps(mg_labelled(5, elements))


@lru_cache(None)
def CRG_reps(nmax=3, elements=("C", "H")):
    out = []
    for n in range(0, nmax + 1):
        out.extend(reps(crg_labelled(n, elements)))
    return out


# ---- stereo stars -------------------------------------------------------------------------------------------

LIG = ("H", "F", "Cl", "Br", "I", "O")
PATTERNS = {
    3: [(0, 1, 2), (0, 0, 1), (0, 0, 0)],
    4: [(0, 1, 2, 3), (0, 0, 1, 2), (0, 0, 1, 1), (0, 0, 0, 1), (0, 0, 0, 0)],
    5: [(0, 1, 2, 3, 4), (0, 0, 1, 2, 3), (0, 0, 1, 1, 2), (0, 0, 0, 1, 2), (0, 0, 0, 0, 0)],
    6: [(0, 1, 2, 3, 4, 5), (0, 0, 1, 2, 3, 4), (0, 0, 1, 1, 2, 2), (0, 0, 0, 1, 1, 1), (0, 0, 0, 0, 1, 1), (0, 0, 0, 0, 0, 0)],
}
STAR_CLASSES = [("Tetrahedral", "C", 4), ("Tetrahedral", "N", 3), ("SquarePlanar", "Pt", 4),
                ("TrigonalBipyramidal", "P", 5), ("Octahedral", "Fe", 6)]


def star(cls, centre_el, lig_els, desc, kind=SMG, ids=None):
    n = len(lig_els)
    ids = ids or list(range(n + 1))
    atoms = [(ids[0], centre_el)] + [(ids[i + 1], e) for i, e in enumerate(lig_els)]
    bonds = [(ids[0], ids[i + 1]) for i in range(n)]
    return mk(kind, atoms, bonds, astereo=[desc] if desc else [])


def star_descs(cls, nlig, ids=None, with_none=True):
    """every spatially distinct fully specified descriptor (+ the unspecified one) of class cls over centre ids[0]
    and ligands ids[1:]; a lone-pair tetrahedral centre carries one None placeholder"""
    ids = ids or list(range(nlig + 1))
    base = tuple(ids[: nlig + 1])
    if len(base) < RS.NPOS[cls]:
        base = base + (None,) * (RS.NPOS[cls] - len(base))
    ds = RS.isomers(cls, base)
    if with_none:
        ds = ds + [(cls, base, None)]
    return ds


@lru_cache(None)
def stars(max_lig=6, kind=SMG, with_none=True, all_patterns=True):
    out = []
    for cls, cel, n in STAR_CLASSES:
        if n > max_lig:
            continue
        for pat in (PATTERNS[n] if all_patterns else PATTERNS[n][:1]):
            els = [LIG[i] for i in pat]
            for d in star_descs(cls, n, with_none=with_none):
                out.append(star(cls, cel, els, d, kind))
    return out


@lru_cache(None)
def stars_extra(kind=SMG):
    """lone-pair centres with the placeholder at every position of the descriptor (every ordering of (1,2,3,None) x parity),
    and star skeletons without any descriptor"""
    out = []
    els = ["H", "F", "Cl"]
    for perm in itertools.permutations((1, 2, 3, None)):
        for p in (1, -1):
            out.append(star("Tetrahedral", "N", els, ("Tetrahedral", (0, *perm), p), kind))
    # imine-type planar bond with the placeholder on either end / position
    atoms = [(0, "C"), (1, "N"), (2, "F"), (3, "H"), (4, "Cl")]
    bonds = [(0, 1), (0, 2), (0, 3), (1, 4)]
    for t in ((2, 3, 0, 1, 4, None), (2, 3, 0, 1, None, 4), (3, 2, 0, 1, 4, None), (4, None, 1, 0, 2, 3), (None, 4, 1, 0, 2, 3),
              (None, 4, 1, 0, 3, 2)):
        out.append(mk(kind, atoms, bonds, bstereo=[("PlanarBond", t, 0)]))
    for cls, cel, n in STAR_CLASSES:
        out.append(star(cls, cel, [LIG[i] for i in range(n)], None, kind))
        out.append(star(cls, cel, [LIG[0]] * n, None, kind))
    # two lone pairs on one centre (identical placeholders: the centre is its own mirror image) in several spellings
    for t in ((0, 1, 2, None, None), (0, None, 1, None, 2), (0, None, None, 2, 1), (0, 2, None, 1, None)):
        for p in (1, -1):
            out.append(mk(kind, [(0, "O"), (1, "H"), (2, "F")], [(0, 1), (0, 2)], astereo=[("Tetrahedral", t, p)]))
    # T-shaped ClF2X with two equatorial lone pairs, XeF4-like octahedron with two trans lone pairs
    out.append(mk(kind, [(0, "Cl"), (1, "F"), (2, "F"), (3, "Br")], [(0, 1), (0, 2), (0, 3)],
                  astereo=[("TrigonalBipyramidal", (0, 1, 2, 3, None, None), 1)]))
    out.append(mk(kind, [(0, "Cl"), (1, "F"), (2, "F"), (3, "Br")], [(0, 1), (0, 2), (0, 3)],
                  astereo=[("TrigonalBipyramidal", (0, 2, 1, None, 3, None), 1)]))
    out.append(mk(kind, [(0, "Xe"), (1, "F"), (2, "F"), (3, "Cl"), (4, "Cl")], [(0, 1), (0, 2), (0, 3), (0, 4)],
                  astereo=[("Octahedral", (0, None, None, 1, 3, 2, 4), 1)]))
    out.append(mk(kind, [(0, "Xe"), (1, "F"), (2, "F"), (3, "Cl"), (4, "Cl")], [(0, 1), (0, 2), (0, 3), (0, 4)],
                  astereo=[("Octahedral", (0, None, None, 1, 2, 3, 4), -1)]))
    # diazene X-N=N-Y: one lone pair on each end, E and Z, written from either end
    az = [(0, "N"), (1, "N"), (2, "H"), (3, "F")]
    ab = [(0, 1), (0, 2), (1, 3)]
    for t in ((2, None, 0, 1, 3, None), (2, None, 0, 1, None, 3), (None, 2, 0, 1, None, 3), (3, None, 1, 0, None, 2),
              (None, 3, 1, 0, 2, None)):
        out.append(mk(kind, az, ab, bstereo=[("PlanarBond", t, 0)]))
    # [1.1.1]propellane: two bonded bridgeheads that share all their other ligands - their descriptors are over the SAME atom set;
    # unspecified parities (equal as descriptors whichever atom is the centre) and specified ones.  (Not mixed: an unspecified
    # descriptor over the same five atoms equals the other centre's specified one too, so which mappings preserve the pair is ambiguous.)
    pa = [(0, "C"), (1, "C"), (2, "C"), (3, "C"), (4, "C")]
    pbd = [(0, 1), (0, 2), (0, 3), (0, 4), (1, 2), (1, 3), (1, 4)]
    for p0, p1 in ((None, None), (1, 1), (1, -1)):
        out.append(mk(kind, pa, pbd, astereo=[("Tetrahedral", (0, 1, 2, 3, 4), p0), ("Tetrahedral", (1, 0, 2, 3, 4), p1)]))
    # axis / planar bond with a lone pair on one end (iminium-like X(Y)C=N-Z: 0=C, 1=N) and on both ends, placeholder at every
    # position it can take, both parities of the axis
    im = [(0, "C"), (1, "N"), (2, "F"), (3, "Cl"), (4, "Br")]
    ib = [(0, 1), (0, 2), (0, 3), (1, 4)]
    for t in ((2, 3, 0, 1, 4, None), (2, 3, 0, 1, None, 4), (4, None, 1, 0, 2, 3), (None, 4, 1, 0, 3, 2)):
        for p in (1, -1):
            out.append(mk(kind, im, ib, bstereo=[("AtropBond", t, p)]))
        out.append(mk(kind, im, ib, bstereo=[("PlanarBond", t, 0)]))
    for t in ((2, None, 0, 1, 3, None), (None, 2, 0, 1, 3, None)):
        for p in (1, -1):
            out.append(mk(kind, az, ab, bstereo=[("AtropBond", t, p)]))
    return out


@lru_cache(None)
def symmetric_reactions(kind=CRG):
    """role patterns on highly symmetric skeletons that 1-WL colour refinement cannot tell apart: every assignment of
    two roles to the bonds of C6 / prism / K4 / K3,3 / cube in which all atoms see the same multiset of incident roles"""
    out = []
    skel = {"C6": (6, [(i, (i + 1) % 6) for i in range(6)]),
            "K4": (4, list(itertools.combinations(range(4), 2))),
            "prism": (6, [(0, 1), (1, 2), (2, 0), (3, 4), (4, 5), (5, 3), (0, 3), (1, 4), (2, 5)]),
            "K33": (6, [(i, j) for i in range(3) for j in range(3, 6)]),
            "cube": (8, [(i, j) for i in range(8) for j in range(i + 1, 8) if bin(i ^ j).count("1") == 1])}
    role_pairs = [(None, "FLEETING"), (None, "FORMED"), ("FORMED", "BROKEN"), ("FLEETING", "BROKEN"), (None, "BROKEN")]
    for name, (n, bonds) in skel.items():
        m = len(bonds)
        for ra, rb in role_pairs:
            seen = set()
            for mask in range(1, (1 << m) - 1):
                roles = [rb if mask >> i & 1 else ra for i in range(m)]
                inc = {a: [] for a in range(n)}
                for (x, y), r in zip(bonds, roles):
                    inc[x].append(str(r))
                    inc[y].append(str(r))
                sig = {tuple(sorted(v)) for v in inc.values()}
                if len(sig) != 1:
                    continue
                g = mk(kind, [(i, "C") for i in range(n)], [(x, y, r) for (x, y), r in zip(bonds, roles)])
                out.append((name, g))
    return out


# ---- two-unit skeletons ---------------------------------------------------------------------------------------

def _th(c, l, p):
    l = tuple(l) + (None,) * (4 - len(l))
    return ("Tetrahedral", (c, *l), p)


@lru_cache(None)
def two_unit(kind=SMG):
    """ethane-like (two tetrahedral centres: meso / dl), ethene-like (E/Z), axis (AtropBond), 1,3-disubstituted
    four-ring (cis / trans, pseudo-asymmetric centres); every parity combination"""
    out = []
    # ethane X Y Z C0 - C1 X Y Z ; substituents 2,3,4 on C0 and 5,6,7 on C1
    for subs in (("F", "Cl", "Br"), ("F", "Cl", "H"), ("F", "F", "H")):
        atoms = [(0, "C"), (1, "C")] + [(2 + i, e) for i, e in enumerate(subs)] + [(5 + i, e) for i, e in enumerate(subs)]
        bonds = [(0, 1)] + [(0, 2 + i) for i in range(3)] + [(1, 5 + i) for i in range(3)]
        for p0 in (1, -1, None):
            for p1 in (1, -1, None):
                out.append(mk(kind, atoms, bonds, astereo=[_th(0, (1, 2, 3, 4), p0), _th(1, (0, 5, 6, 7), p1)]))
    # ethene  X(2) Y(3) C0 = C1 Z(4) W(5)
    for (x, y), (z, w) in [(("F", "H"), ("F", "H")), (("F", "H"), ("Cl", "H")), (("F", "Cl"), ("Br", "I")), (("H", "H"), ("F", "Cl"))]:
        atoms = [(0, "C"), (1, "C"), (2, x), (3, y), (4, z), (5, w)]
        bonds = [(0, 1), (0, 2), (0, 3), (1, 4), (1, 5)]
        for t in ((2, 3, 0, 1, 4, 5), (2, 3, 0, 1, 5, 4)):
            for p in (0, None):
                out.append(mk(kind, atoms, bonds, bstereo=[("PlanarBond", t, p)]))
        # axis
        for t in ((2, 3, 0, 1, 4, 5),):
            for p in (1, -1, None):
                out.append(mk(kind, atoms, bonds, bstereo=[("AtropBond", t, p)]))
    # imine-like with lone pair: X(2) Y(3) C0 = N1 Z(4)
    atoms = [(0, "C"), (1, "N"), (2, "F"), (3, "H"), (4, "Cl")]
    bonds = [(0, 1), (0, 2), (0, 3), (1, 4)]
    for t in ((2, 3, 0, 1, 4, None), (2, 3, 0, 1, None, 4)):
        out.append(mk(kind, atoms, bonds, bstereo=[("PlanarBond", t, 0)]))
    # cyclobutane ring 0-1-2-3, substituents F(4),H(5) on 0 and F(6),H(7) on 2 ; H2 on 1 and 3 left out (CH2 as bare C
    # with two H: 8,9 on 1 ; 10,11 on 3)
    atoms = [(0, "C"), (1, "C"), (2, "C"), (3, "C"), (4, "F"), (5, "H"), (6, "F"), (7, "H"), (8, "H"), (9, "H"), (10, "H"), (11, "H")]
    bonds = [(0, 1), (1, 2), (2, 3), (3, 0), (0, 4), (0, 5), (2, 6), (2, 7), (1, 8), (1, 9), (3, 10), (3, 11)]
    for p0 in (1, -1):
        for p2 in (1, -1):
            out.append(mk(kind, atoms, bonds, astereo=[_th(0, (1, 3, 4, 5), p0), _th(2, (1, 3, 6, 7), p2),
                                                       _th(1, (0, 2, 8, 9), 1), _th(3, (0, 2, 10, 11), 1)]))
    return out


# ---- stereo reaction graphs ---------------------------------------------------------------------------------------

@lru_cache(None)
def scrg_universe(size="quick"):
    """CRG skeletons x star decorations distributed over static / broken / fleeting / formed"""
    out = []
    # (a) plain CRG skeletons without stereo, as SCRG
    for g in CRG_reps(3):
        h = RG.RefGraph(SCRG)
        h.atoms = {a: dict(d) for a, d in g.atoms.items()}
        h.bonds = {b: dict(d) for b, d in g.bonds.items()}
        out.append(h)
    # (b) tetrahedral centre 0 with ligands 1..4 (elements F Cl Br H), one ligand bond possibly formed/broken,
    #     descriptor placed static or in every non-empty combination of change kinds
    els = ["F", "Cl", "Br", "H"]
    atoms = [(0, "C")] + [(i + 1, e) for i, e in enumerate(els)]
    t_p = ("Tetrahedral", (0, 1, 2, 3, 4), 1)
    t_m = ("Tetrahedral", (0, 1, 2, 3, 4), -1)
    sp = ("SquarePlanar", (0, 1, 2, 3, 4), 0)
    kinds = RG.KINDS
    combos = [c for r in (1, 2, 3) for c in itertools.combinations(kinds, r)]
    role_sets = [None, "FORMED", "BROKEN"] if size == "quick" else [None, "FORMED", "BROKEN", "FLEETING"]
    for role in role_sets:
        bonds = [(0, 1, role)] + [(0, i) for i in (2, 3, 4)]
        for d in (t_p, t_m):
            out.append(mk(SCRG, atoms, bonds, astereo=[d]))
        for combo in combos:
            menu = {"BROKEN": (t_p, t_m), "FORMED": (t_m, t_p), "FLEETING": (sp, t_p)}
            variants = list(itertools.product(*[menu[k] for k in combo])) if size != "quick" else \
                [tuple(menu[k][0] for k in combo), tuple(menu[k][1] for k in combo)]
            for v in variants:
                out.append(mk(SCRG, atoms, bonds, achg={0: dict(zip(combo, v))}))
    # (c) bond stereo changes on an ethene skeleton
    atoms = [(0, "C"), (1, "C"), (2, "F"), (3, "H"), (4, "Cl"), (5, "H")]
    bonds = [(0, 1), (0, 2), (0, 3), (1, 4), (1, 5)]
    pz = ("PlanarBond", (2, 3, 0, 1, 4, 5), 0)
    pe = ("PlanarBond", (2, 3, 0, 1, 5, 4), 0)
    ap = ("AtropBond", (2, 3, 0, 1, 4, 5), 1)
    am = ("AtropBond", (2, 3, 0, 1, 4, 5), -1)
    out.append(mk(SCRG, atoms, bonds, bstereo=[pz]))
    out.append(mk(SCRG, atoms, bonds, bstereo=[pe]))
    for combo in combos:
        menu = {"BROKEN": (pz, ap), "FORMED": (pe, am), "FLEETING": (ap, pz)}
        variants = list(itertools.product(*[menu[k] for k in combo])) if size != "quick" else \
            [tuple(menu[k][0] for k in combo), tuple(menu[k][1] for k in combo)]
        for v in variants:
            out.append(mk(SCRG, atoms, bonds, bchg={(0, 1): dict(zip(combo, v))}))
    # (d) atom + bond change together, with a formed bond elsewhere
    atoms2 = atoms + [(6, "O")]
    bonds2 = bonds + [(1, 6, "FORMED")]
    out.append(mk(SCRG, atoms2, bonds2, bstereo=[pz],
                  achg={1: {"FORMED": ("Tetrahedral", (1, 0, 4, 5, 6), 1)}}))
    out.append(mk(SCRG, atoms2, bonds2, bchg={(0, 1): {"BROKEN": pz}},
                  achg={1: {"FORMED": ("Tetrahedral", (1, 0, 4, 5, 6), -1)}, 0: {"FORMED": ("Tetrahedral", (0, 1, 2, 3, None), 1)}}))
    # (e) several centres / several bonds with stereo changes of different kinds: butadiene-like chain 0=1-2=3 with
    #     substituents 4,5 on 0 ; 6 on 1 ; 7 on 2 ; 8,9 on 3
    atoms3 = [(0, "C"), (1, "C"), (2, "C"), (3, "C"), (4, "F"), (5, "H"), (6, "H"), (7, "Cl"), (8, "Br"), (9, "H")]
    bonds3 = [(0, 1), (1, 2), (2, 3), (0, 4), (0, 5), (1, 6), (2, 7), (3, 8), (3, 9)]
    b01z = ("PlanarBond", (4, 5, 0, 1, 2, 6), 0)
    b01e = ("PlanarBond", (4, 5, 0, 1, 6, 2), 0)
    b23z = ("PlanarBond", (1, 7, 2, 3, 8, 9), 0)
    b23e = ("PlanarBond", (1, 7, 2, 3, 9, 8), 0)
    b12 = ("AtropBond", (0, 6, 1, 2, 3, 7), 1)
    out.append(mk(SCRG, atoms3, bonds3, bchg={(0, 1): {"BROKEN": b01z}, (2, 3): {"FORMED": b23e}}))
    out.append(mk(SCRG, atoms3, bonds3, bchg={(0, 1): {"BROKEN": b01z, "FORMED": b01e}, (2, 3): {"BROKEN": b23z, "FORMED": b23e},
                                              (1, 2): {"FLEETING": b12}}))
    out.append(mk(SCRG, atoms3, bonds3, bstereo=[b01z], bchg={(2, 3): {"FLEETING": b23z}, (1, 2): {"FORMED": b12}}))
    ta = ("Tetrahedral", (0, 1, 4, 5, None), 1)
    tb = ("Tetrahedral", (3, 2, 8, 9, None), -1)
    out.append(mk(SCRG, atoms3, bonds3, achg={0: {"FORMED": ta}, 3: {"BROKEN": tb}}))
    out.append(mk(SCRG, atoms3, bonds3, achg={0: {"FLEETING": ta}, 3: {"FLEETING": tb, "FORMED": RS.mirror(tb)}},
                  bchg={(1, 2): {"BROKEN": b12}}))
    return out


def to_kind(m, kind):
    h = RG.RefGraph(kind)
    h.atoms = {a: dict(d) for a, d in m.atoms.items()}
    h.bonds = {b: dict(d) for b, d in m.bonds.items()}
    if kind in (MG, SMG):
        for d in h.bonds.values():
            d.pop("reaction", None)
    if kind in (SMG, SCRG):
        h.astereo = dict(m.astereo)
        h.bstereo = dict(m.bstereo)
    if kind == SCRG:
        h.achg = {c: dict(kd) for c, kd in m.achg.items()}
        h.bchg = {c: dict(kd) for c, kd in m.bchg.items()}
    return h


# ---- large symmetric graphs -----------------------------------------------------------------------------------------

@lru_cache(None)
def hubs(tier="quick"):
    """centres with 7 (thorough: also 8) neighbours and no descriptor, the neighbours all of one element but not equivalent (one
    carries H, one F, one is part of a second hub-less chain): the library's colouring enumerates neighbour orders for such atoms"""
    out = []
    for k in ((7,) if tier == "quick" else (7, 8)):
        atoms = [(0, "W")] + [(i, "C") for i in range(1, k + 1)] + [(k + 1, "H"), (k + 2, "F"), (k + 3, "C")]
        bonds = [(0, i) for i in range(1, k + 1)] + [(1, k + 1), (2, k + 2), (3, k + 3)]
        out.append(mk(SMG, atoms, bonds))
        out.append(mk(MG, atoms, bonds))
        rb = [(0, 1, "FORMED")] + bonds[1:]
        out.append(mk(SCRG, atoms, rb))
        out.append(mk(CRG, atoms, rb))
        # with a descriptor elsewhere in the molecule
        atoms2 = atoms + [(k + 4, "H"), (k + 5, "F"), (k + 6, "Cl")]
        bonds2 = bonds + [(k + 3, k + 4), (k + 3, k + 5), (k + 3, k + 6)]
        out.append(mk(SMG, atoms2, bonds2, astereo=[("Tetrahedral", (k + 3, 3, k + 4, k + 5, k + 6), 1)]))
    out += hub_arms()
    return out


def cages():
    """small cages in which a stereo centre has only ring neighbours, and molecules with two chirality axes: configurations that
    colour refinement cannot see locally, so only the descriptor comparison along a mapping decides"""
    out = []
    # Pt / C 'paddlane': four one-atom bridges (O, O, S, S) between a square-planar Pt and a tetrahedral C
    at = [(0, "Pt"), (1, "C"), (2, "O"), (3, "O"), (4, "S"), (5, "S")]
    bd = [(0, i) for i in (2, 3, 4, 5)] + [(1, i) for i in (2, 3, 4, 5)]
    for sp in ((0, 2, 3, 4, 5), (0, 2, 4, 3, 5)):            # cis (O next to O) / trans
        for par in (1, -1):
            out.append(mk(SMG, at, bd, astereo=[("SquarePlanar", sp, 0), ("Tetrahedral", (1, 2, 3, 4, 5), par)]))
    # two axes 2-3 and 12-13 that share the ligand 5 (an oxygen bridge); second axis written as the mirror image of the first by
    # LIGAND ORDER with the same parity sign (meso), with the same order (chiral), and with opposite sign
    at = [(0, "F"), (1, "Cl"), (2, "C"), (3, "C"), (4, "H"), (5, "O"), (10, "F"), (11, "Cl"), (12, "C"), (13, "C"), (14, "H")]
    bd = [(2, 3), (2, 0), (2, 1), (3, 4), (3, 5), (12, 13), (12, 10), (12, 11), (13, 14), (13, 5)]
    for t2, p2 in (((11, 10, 12, 13, 14, 5), 1), ((10, 11, 12, 13, 14, 5), 1), ((10, 11, 12, 13, 14, 5), -1), ((11, 10, 12, 13, 14, 5), -1)):
        out.append(mk(SMG, at, bd, bstereo=[("AtropBond", (0, 1, 2, 3, 4, 5), 1), ("AtropBond", t2, p2)]))
    return out


def hub_arms():
    """F5W(-C*FClBr)2: a seven-coordinate centre (no descriptor class exists for it) whose neighbourhood holds two stereocentres:
    (R,S) is meso - equal to its mirror image - and (R,R) / (S,S) are enantiomers"""
    atoms = [(0, "W")] + [(i, "F") for i in range(1, 6)] + [(6, "C"), (7, "C")] + \
        [(8, "F"), (9, "Cl"), (10, "Br"), (11, "F"), (12, "Cl"), (13, "Br")]
    bonds = [(0, i) for i in range(1, 8)] + [(6, 8), (6, 9), (6, 10), (7, 11), (7, 12), (7, 13)]
    out = []
    for p1, p2 in ((1, -1), (1, 1), (-1, -1)):
        out.append(mk(SMG, atoms, bonds, astereo=[("Tetrahedral", (6, 0, 8, 9, 10), p1), ("Tetrahedral", (7, 0, 11, 12, 13), p2)]))
    return out


def large(tier="quick"):
    """graphs beyond the limits of small integer types (more than 127 / 255 atoms): a chain with scrambled identifiers that carries
    one stereocentre at one end, and the same as a reaction graph with one formed bond"""
    out = []
    for n in ((130,) if tier == "quick" else (130, 260)):
        k = 7 if n % 7 else 11
        chain = [((i * k) % n) for i in range(n)]
        atoms = [(a, "C") for a in range(n)] + [(n, "H"), (n + 1, "F"), (n + 2, "Cl")]
        bonds = [(chain[i], chain[i + 1]) for i in range(n - 1)] + [(chain[0], n), (chain[0], n + 1), (chain[0], n + 2)]
        out.append(mk(MG, atoms, bonds))
        out.append(mk(SMG, atoms, bonds, astereo=[("Tetrahedral", (chain[0], chain[1], n, n + 1, n + 2), 1)]))
        out.append(mk(CRG, atoms, [(chain[n // 2], chain[n // 2 + 1], "FORMED")] + [b for b in bonds if set(b) != {chain[n // 2], chain[n // 2 + 1]}]))
    return out


def symmetric():
    out = []
    C = lambda n: [(i, "C") for i in range(n)]  # noqa: E731
    out.append(("K4", mk(MG, C(4), list(itertools.combinations(range(4), 2)))))
    out.append(("C6", mk(MG, C(6), [(i, (i + 1) % 6) for i in range(6)])))
    out.append(("K33", mk(MG, C(6), [(i, j) for i in range(3) for j in range(3, 6)])))
    out.append(("prism", mk(MG, C(6), [(0, 1), (1, 2), (2, 0), (3, 4), (4, 5), (5, 3), (0, 3), (1, 4), (2, 5)])))
    cube = [(i, j) for i in range(8) for j in range(i + 1, 8) if bin(i ^ j).count("1") == 1]
    out.append(("cube", mk(MG, C(8), cube)))
    # benzene with six PlanarBonds: ring 0..5, H 6..11
    atoms = C(6) + [(6 + i, "H") for i in range(6)]
    bonds = [(i, (i + 1) % 6) for i in range(6)] + [(i, 6 + i) for i in range(6)]
    bst = []
    for i in range(6):
        j = (i + 1) % 6
        bst.append(("PlanarBond", ((i - 1) % 6, 6 + i, i, j, (j + 1) % 6, 6 + j), 0))
    out.append(("benzene", mk(SMG, atoms, bonds, bstereo=bst)))
    out.append(("ML6", star("Octahedral", "Fe", ["F"] * 6, ("Octahedral", (0, 1, 2, 3, 4, 5, 6), 1))))
    out.append(("ML5", star("TrigonalBipyramidal", "P", ["F"] * 5, ("TrigonalBipyramidal", (0, 1, 2, 3, 4, 5), 1))))
    out.append(("ML4sp", star("SquarePlanar", "Pt", ["Cl"] * 4, ("SquarePlanar", (0, 1, 2, 3, 4), 0))))
    out.append(("ML4th", star("Tetrahedral", "C", ["H"] * 4, ("Tetrahedral", (0, 1, 2, 3, 4), 1))))
    out.append(("MA3B3", star("Octahedral", "Fe", ["F", "F", "F", "Cl", "Cl", "Cl"], ("Octahedral", (0, 1, 4, 2, 3, 5, 6), 1))))
    return out


def spiro_changes():
    """several stereo changes of one kind meeting at one atom: double ring closure to a dioxaspiropentane - the spiro carbon's formed
    descriptor (R or S) and the formed descriptors of the two ring oxygens, which have the spiro carbon as a ligand; registered in
    either order, and with the spiro descriptor alone (the same construction as pool 'spiro-stereo-changes' of C02)"""
    sa = [(0, "C"), (1, "O"), (2, "O"), (3, "C"), (4, "C"), (5, "H"), (6, "H"), (7, "H"), (8, "H")]
    sb = [(0, 1, "FORMED"), (0, 2, "FORMED"), (0, 3), (0, 4), (1, 3), (2, 4), (3, 5), (3, 6), (4, 7), (4, 8)]
    sp = []
    for par in (1, -1):
        for order in (0, 1):
            ch = [(0, {"FORMED": ("Tetrahedral", (0, 1, 3, 2, 4), par)}), (1, {"FORMED": ("Tetrahedral", (1, 0, 3, None, None), 1)}),
                  (2, {"FORMED": ("Tetrahedral", (2, 0, 4, None, None), 1)})]
            if order:
                ch = ch[1:] + ch[:1]
            sp.append(mk(SCRG, sa, sb, achg=dict(ch)))
            sp.append(mk(SCRG, sa, sb, achg=dict(ch[:1] if not order else ch[-1:])))
    return sp
