"""RDKit case generators for C12 / C13 / C14.  RDKit (2024.09.3) is the environment: its renumbering, SMILES
reading/writing and stereo enumeration are trusted (DESIGN.md 5/C12)."""
from __future__ import annotations

import itertools
from functools import lru_cache

LIGS = ["F", "Cl", "Br", "I", "[At]", "[Li]"]
NLABELS = {"TH": 2, "SP": 3, "TB": 20, "OH": 30}
NLIG = {"TH": 4, "SP": 4, "TB": 5, "OH": 6}
CENTRE = {"TH": "C", "SP": "Pt", "TB": "As", "OH": "Co"}


def complex_smiles(cls, label, ligs=None):
    ligs = ligs or LIGS[:NLIG[cls]]
    if cls == "TH":
        tag = "@" if label == 1 else "@@"
    else:
        tag = f"@{cls}{label}"
    c = f"[{CENTRE[cls]}{tag}]"
    return ligs[0] + c + "".join(f"({l})" for l in ligs[1:-1]) + ligs[-1]


def parse(smi, add_hs=True):
    from rdkit import Chem

    m = Chem.MolFromSmiles(smi)
    if m is None:
        raise ValueError("RDKit cannot parse " + smi)
    if add_hs:
        m = Chem.AddHs(m)
    return m


def renumberings(mol, full_upto=7, tier="quick"):
    """yield (label, new molecule): RenumberAtoms over all atom permutations (small) or a family"""
    from rdkit import Chem

    n = mol.GetNumAtoms()
    ids = list(range(n))
    if n <= full_upto:
        perms = itertools.permutations(ids)
    else:
        fam = [tuple(ids[k:] + ids[:k]) for k in range(1, n)] + [tuple(reversed(ids))]
        pairs = list(itertools.combinations(ids, 2))
        if tier == "quick":
            pairs = pairs[:: max(1, len(pairs) // 10)]
        for i, j in pairs:
            p = ids[:]
            p[i], p[j] = p[j], p[i]
            fam.append(tuple(p))
        perms = list(dict.fromkeys(fam))
    for p in perms:
        if list(p) == ids:
            continue
        yield ("renumber", p, Chem.RenumberAtoms(mol, list(p)))


def respellings(mol, limit=None):
    """yield (label, info, molecule): the molecule written by RDKit as a SMILES rooted at every atom (non-canonical
    atom order) and read back - this changes atom AND bond (neighbour) order"""
    from rdkit import Chem

    n = mol.GetNumAtoms()
    seen = set()
    roots = range(n) if limit is None else list(range(n))[:limit]
    for i in roots:
        for kw in ({"canonical": False}, {"canonical": True}):
            try:
                smi = Chem.MolToSmiles(mol, rootedAtAtom=i, allHsExplicit=True, **kw)
            except Exception:
                continue
            if smi in seen:
                continue
            seen.add(smi)
            ps = Chem.SmilesParserParams()
            ps.removeHs = False
            m2 = Chem.MolFromSmiles(smi, ps)
            if m2 is None:
                continue
            yield ("respell", smi, m2)


ORGANICS = [
    # 0-4 tetrahedral centres, E/Z bonds, rings, aromatics, heteroatoms
    "C[C@H](F)Cl", "C[C@@H](F)Cl", "C[C@H](O)C(=O)O", "N[C@@H](C)C(=O)O", "F/C=C/Cl", "F/C=C\\Cl", "C/C=C/C", "C/C=C\\C",
    "C[C@H](Cl)[C@H](Cl)C", "C[C@H](Cl)[C@@H](Cl)C", "C[C@@H](Cl)[C@@H](Cl)C", "O[C@H](C)/C=C/Cl", "O[C@H](C)/C=C\\Cl",
    "C[C@H]1CC[C@@H](C)CC1", "C[C@H]1CC[C@H](C)CC1", "c1ccccc1", "c1ccncc1", "Cc1ccccc1", "CC(=O)N", "CC(=O)OC", "C1CC1", "CCO",
    "C[S@](=O)CC", "C[S@@](=O)CC", "C[N@](CC)C(C)C", "OC[C@H](O)[C@@H](O)C=O", "F[C@](Cl)(Br)I", "F[C@@](Cl)(Br)I",
    "C[C@H](N)c1ccccc1", "C/C=C/C=C\\C", "C=C", "C#C", "O=C=O", "N#CC", "C[C@@H]1C[C@H]1F", "C1=CCCCC1", "OC(=O)/C=C/C(=O)O",
    "OC(=O)/C=C\\C(=O)O", "C[P@](=O)(O)CC", "CC(C)=C", "ClC=C(Cl)Cl", "O=C1C=CC(=O)C=C1", "c1ccc2ccccc2c1", "C1CCC2CCCCC2C1",
    "C[C@H]1CCCO1", "CN(C)C=O", "CC(=O)/C=C/c1ccccc1", "[H]/N=C/C", "[H]/N=C\\C", "C/N=C/C",
    # tri- / tetra-substituted stereo double bonds (atom 0 as the lower ranked substituent), small-ring alkenes with wide
    # exocyclic angles, oximes / azo compounds
    "C/C(Cl)=C/C", "C/C(CC)=C/C", "F/C(Cl)=C(/Br)I", "Cl/C(C)=C/C", "C/C=C(/C)Cl", "CC1=C(C)C1", "FC1=C(Cl)C1", "CC1=C(C)C1(C)C",
    "FP(F)(F)(F)Cl", "F/C=C/P(F)(F)(F)Cl", "C[C@H](F)S(F)(F)(F)(F)Cl", "FS(F)(F)(F)(Cl)Br",
    "C=C1CC1", "C1=CCC1", "C/C=N/O", "C/C=N\\O", "C/N=N/C", "C/N=N\\C", "Cc1cccnc1", "F/C=C(/Cl)Br", "C(/F)(Cl)=C(/F)Cl",
]


# charged, delocalised species: their resonance forms differ in which bonds are double (used by C12 only)
IONS = [
    "C/C=C/C(N)=[NH2+]", "C=C[CH2+]", "C/C=C/[CH2+]", "C/C=C\\[CH2+]", "CC(=O)[O-]", "C[N+](=O)[O-]", "NC(N)=[NH2+]", "C/C=C/C(=O)[O-]",
    "C/C(=C\\C)[O-]", "C/C=C/C=[OH+]", "[CH2-]/C=C/C", "C[C@H](F)C(N)=[NH2+]", "F/C=C/C(C)=[N+](C)C", "[O-]c1ccccc1", "C[n+]1ccccc1",
]


@lru_cache(None)
def organics():
    return list(ORGANICS)


# E/Z-labelled double bonds inside rings of eight and more atoms (RDKit labels them; smaller rings are cis by construction)
MACROCYCLES = ["C[C@H]1CCCCc2ccccc12", "C1CCCCc2ccccc12", "C1CCCCCc2ccccc12", "O=C1CCCCc2ccncc12", "C1CCC/C=C/CC1", "C1CCC/C=C\\CC1", "C1CCCCC/C=C/CCCC1", "CC1CCCC/C=C/CCC1", "C1CC/C=C/CC/C=C/C1"]


@lru_cache(None)
def ions():
    return list(IONS) + list(MACROCYCLES)


def stereoisomers(smi):
    """all stereoisomers of the constitution of smi as RDKit molecules (no Hs), via RDKit's own enumeration"""
    from rdkit import Chem
    from rdkit.Chem.EnumerateStereoisomers import EnumerateStereoisomers, StereoEnumerationOptions

    m = Chem.MolFromSmiles(smi)
    flat = Chem.MolFromSmiles(Chem.MolToSmiles(m, isomericSmiles=False))
    opts = StereoEnumerationOptions(unique=True, onlyUnassigned=False, tryEmbedding=False)
    out = {}
    for iso in EnumerateStereoisomers(flat, options=opts):
        out[Chem.MolToSmiles(iso)] = iso
    return out
