"""Valence-complete molecule enumerator for C18: every connected, neutral, closed-shell multigraph with bond orders
1-3 on k heavy atoms from C, N, O, S(II/VI), P(III/V), F, Cl, Br, I in standard valences, hydrogens filled in;
plus a fixed list of aromatic and cumulated systems (as Kekule structures)."""
from __future__ import annotations

import itertools
from functools import lru_cache

# (symbol, valence state)
TYPES = [("C", 4), ("N", 3), ("O", 2), ("S", 2), ("S", 6), ("P", 3), ("P", 5), ("F", 1), ("Cl", 1), ("Br", 1), ("I", 1)]
STD_VALENCES = {"H": {1}, "C": {4}, "N": {3}, "O": {2}, "S": {2, 6}, "P": {3, 5}, "F": {1}, "Cl": {1}, "Br": {1}, "I": {1}}


def _connected(k, bo):
    seen = {0}
    stack = [0]
    while stack:
        x = stack.pop()
        for y in range(k):
            if y not in seen and bo[min(x, y), max(x, y)] > 0:
                seen.add(y)
                stack.append(y)
    return len(seen) == k


def heavy_skeletons(k, types):
    """yield (types tuple, {(i,j): order}) up to the order of equal types (multisets, non-decreasing)"""
    pairs = list(itertools.combinations(range(k), 2))
    for combo in itertools.combinations_with_replacement(range(len(types)), k):
        ts = [types[i] for i in combo]
        val = [v for _, v in ts]

        def rec(idx, used, bo):
            if idx == len(pairs):
                if k == 1 or _connected(k, bo):
                    yield dict(bo)
                return
            i, j = pairs[idx]
            for o in (0, 1, 2, 3):
                if used[i] + o <= val[i] and used[j] + o <= val[j]:
                    bo[(i, j)] = o
                    used[i] += o
                    used[j] += o
                    yield from rec(idx + 1, used, bo)
                    used[i] -= o
                    used[j] -= o
            bo.pop((i, j), None)

        for bo in rec(0, [0] * k, {}):
            yield tuple(ts), bo


def with_hydrogens(ts, bo):
    """(elements, bond-order dict) with H atoms added to complete every valence"""
    els = [s for s, _ in ts]
    orders = {p: o for p, o in bo.items() if o > 0}
    used = [0] * len(ts)
    for (i, j), o in orders.items():
        used[i] += o
        used[j] += o
    n = len(els)
    for i, (s, v) in enumerate(ts):
        assert used[i] <= v, (ts, bo)
        for _ in range(v - used[i]):
            els.append("H")
            orders[(i, n)] = 1
            n += 1
    return els, orders


def _canon(els, orders):
    """cheap invariant to drop most duplicates (same multiset of (element, sorted (neighbour element, order)))"""
    nb = {i: [] for i in range(len(els))}
    for (i, j), o in orders.items():
        nb[i].append((els[j], o))
        nb[j].append((els[i], o))
    return tuple(sorted((els[i], tuple(sorted(nb[i]))) for i in range(len(els))))


@lru_cache(None)
def enumerated(kmax, small_types=False):
    out = []
    seen = set()
    for k in range(1, kmax + 1):
        types = TYPES
        if k >= 4 or small_types:
            types = [t for t in TYPES if t[0] in ("C", "N", "O", "S", "P", "F")]
        if k >= 5:
            types = [t for t in TYPES if t[0] in ("C", "N", "O")]
        for ts, bo in heavy_skeletons(k, types):
            els, orders = with_hydrogens(ts, bo)
            if len(els) > 14:
                continue
            c = _canon(els, orders)
            if c in seen:
                continue
            seen.add(c)
            out.append((els, orders))
    return out


@lru_cache(None)
def hydrocarbons(kmax):
    """every connected closed-shell hydrocarbon skeleton with 4..kmax carbon atoms and bond orders 1-3 (cumulated and
    conjugated systems, rings, cages), hydrogens filled in"""
    out = []
    seen = set()
    for k in range(4, kmax + 1):
        for ts, bo in heavy_skeletons(k, [("C", 4)]):
            els, orders = with_hydrogens(ts, bo)
            c = _canon(els, orders)
            if c in seen:
                continue
            seen.add(c)
            out.append((els, orders))
    return out


def _from_bonds(els, bonds):
    return list(els), {(min(a, b), max(a, b)): o for a, b, o in bonds}


@lru_cache(None)
def listed():
    """aromatic and cumulated systems written as Kekule structures (heavy atoms first, H appended by valence)"""
    L = {}

    def add(name, heavy, bonds):
        ts = [(s, v) for s, v in heavy]
        bo = {(min(a, b), max(a, b)): o for a, b, o in bonds}
        L[name] = with_hydrogens(ts, bo)

    C, N, O, S2, S6, P5 = ("C", 4), ("N", 3), ("O", 2), ("S", 2), ("S", 6), ("P", 5)
    ring6 = [(i, (i + 1) % 6, 2 if i % 2 == 0 else 1) for i in range(6)]
    add("benzene", [C] * 6, ring6)
    add("pyridine", [N] + [C] * 5, ring6)
    add("pyrimidine", [N, C, N, C, C, C], ring6)
    add("thiophene", [S2, C, C, C, C], [(0, 1, 1), (1, 2, 2), (2, 3, 1), (3, 4, 2), (4, 0, 1)])
    add("furan", [O, C, C, C, C], [(0, 1, 1), (1, 2, 2), (2, 3, 1), (3, 4, 2), (4, 0, 1)])
    add("pyrrole", [N, C, C, C, C], [(0, 1, 1), (1, 2, 2), (2, 3, 1), (3, 4, 2), (4, 0, 1)])
    add("imidazole", [N, C, N, C, C], [(0, 1, 1), (1, 2, 2), (2, 3, 1), (3, 4, 2), (4, 0, 1)])
    nap = [(0, 1, 2), (1, 2, 1), (2, 3, 2), (3, 4, 1), (4, 5, 2), (5, 0, 1), (4, 6, 1), (6, 7, 2), (7, 8, 1), (8, 9, 2), (9, 5, 1)]
    add("naphthalene", [C] * 10, nap)
    azu = [(0, 1, 2), (1, 2, 1), (2, 3, 2), (3, 4, 1), (4, 0, 1), (4, 5, 2), (5, 6, 1), (6, 7, 2), (7, 8, 1), (8, 9, 2), (9, 3, 1)]
    add("azulene", [C] * 10, azu)
    add("allene", [C] * 3, [(0, 1, 2), (1, 2, 2)])
    add("butatriene", [C] * 4, [(0, 1, 2), (1, 2, 2), (2, 3, 2)])
    add("CO2", [O, C, O], [(0, 1, 2), (1, 2, 2)])
    add("CS2", [S2, C, S2], [(0, 1, 2), (1, 2, 2)])
    add("ketene", [C, C, O], [(0, 1, 2), (1, 2, 2)])
    add("dimethylsulfone", [C, S6, C, O, O], [(0, 1, 1), (1, 2, 1), (1, 3, 2), (1, 4, 2)])
    add("DMSO-like-SVI", [S6, O, O, O], [(0, 1, 2), (0, 2, 2), (0, 3, 2)])
    add("phosphine-oxide", [P5, O, C, C, C], [(0, 1, 2), (0, 2, 1), (0, 3, 1), (0, 4, 1)])
    add("butadiene", [C] * 4, [(0, 1, 2), (1, 2, 1), (2, 3, 2)])
    add("pentatetraene", [C] * 5, [(i, i + 1, 2) for i in range(4)])
    add("hexapentaene", [C] * 6, [(i, i + 1, 2) for i in range(5)])
    add("heptahexaene", [C] * 7, [(i, i + 1, 2) for i in range(6)])
    add("C3O2", [O, C, C, C, O], [(i, i + 1, 2) for i in range(4)])
    add("C4O2", [O, C, C, C, C, O], [(i, i + 1, 2) for i in range(5)])
    add("vinylallene", [C] * 5, [(0, 1, 2), (1, 2, 2), (2, 3, 1), (3, 4, 2)])
    add("hexatriyne", [C] * 6, [(0, 1, 3), (1, 2, 1), (2, 3, 3), (3, 4, 1), (4, 5, 3)])
    add("methanesulfenic-acid", [C, S2, O], [(0, 1, 1), (1, 2, 1)])
    add("methanesulfenamide", [C, S2, N], [(0, 1, 1), (1, 2, 1)])
    add("dimethyl-sulfide", [C, S2, C], [(0, 1, 1), (1, 2, 1)])
    add("hexatriene", [C] * 6, [(0, 1, 2), (1, 2, 1), (2, 3, 2), (3, 4, 1), (4, 5, 2)])
    add("acrolein", [C, C, C, O], [(0, 1, 2), (1, 2, 1), (2, 3, 2)])
    add("acetonitrile", [C, C, N], [(0, 1, 1), (1, 2, 3)])
    add("benzonitrile", [C] * 7 + [N], ring6 + [(0, 6, 1), (6, 7, 3)])
    add("phenol", [C] * 6 + [O], ring6 + [(0, 6, 1)])
    add("p-benzoquinone", [C] * 6 + [O, O], [(0, 1, 1), (1, 2, 2), (2, 3, 1), (3, 4, 1), (4, 5, 2), (5, 0, 1), (0, 6, 2), (3, 7, 2)])
    add("acetic-acid", [C, C, O, O], [(0, 1, 1), (1, 2, 2), (1, 3, 1)])
    add("urea", [N, C, N, O], [(0, 1, 1), (1, 2, 1), (1, 3, 2)])
    # two cumulated units joined through sp2 atoms need two bonds of one atom raised; combined with triple bonds elsewhere (in the
    # chain, as a substituent, in a separate fragment) and with S(VI)
    tet = [(0, 1, 2), (1, 2, 2), (2, 3, 1), (3, 4, 2), (4, 5, 2)]
    add("hexatetraene-1245", [C] * 6, tet)
    add("ethynyl-hexatetraene", [C] * 8, tet + [(5, 6, 1), (6, 7, 3)])
    add("hexatetraene+ethyne", [C] * 8, tet + [(6, 7, 3)])
    add("cyano-hexatetraene", [C] * 7 + [N], tet + [(5, 6, 1), (6, 7, 3)])
    add("bisketene", [O, C, C, C, C, O], tet)
    add("bisketene+HCN", [O, C, C, C, C, O, C, N], tet + [(6, 7, 3)])
    add("octatetraene-1267", [C] * 8, [(0, 1, 2), (1, 2, 2), (2, 3, 1), (3, 4, 2), (4, 5, 1), (5, 6, 2), (6, 7, 2)])
    add("mesyl-cyanide", [N, C, S6, O, O, C], [(0, 1, 3), (1, 2, 1), (2, 3, 2), (2, 4, 2), (2, 5, 1)])
    add("sulfur-diimide-oxide+ethyne", [S6, N, N, O, C, C], [(0, 1, 2), (0, 2, 2), (0, 3, 2), (4, 5, 3)])
    add("metaphosphate-ester", [C, O, P5, O, O], [(0, 1, 1), (1, 2, 1), (2, 3, 2), (2, 4, 2)])
    # P(III) / S(II) with several O / N neighbours (the expanded valence of the centre must not win over the neutral one), in the
    # atom order centre-first and centre-last
    P3 = ("P", 3)
    add("trimethyl-phosphite", [P3, O, O, O, C, C, C], [(0, 1, 1), (0, 2, 1), (0, 3, 1), (1, 4, 1), (2, 5, 1), (3, 6, 1)])
    add("trimethyl-phosphite-P-last", [O, O, O, C, C, C, P3], [(6, 0, 1), (6, 1, 1), (6, 2, 1), (0, 3, 1), (1, 4, 1), (2, 5, 1)])
    add("triaminophosphine", [P3, N, N, N], [(0, 1, 1), (0, 2, 1), (0, 3, 1)])
    add("phosphorous-acid-P(OH)3", [P3, O, O, O], [(0, 1, 1), (0, 2, 1), (0, 3, 1)])
    add("phosphoramidite", [P3, O, O, N, C, C, C, C], [(0, 1, 1), (0, 2, 1), (0, 3, 1), (1, 4, 1), (2, 5, 1), (3, 6, 1), (3, 7, 1)])
    add("1,2,5-thiadiazole", [S2, N, C, C, N], [(0, 1, 1), (1, 2, 2), (2, 3, 1), (3, 4, 2), (4, 0, 1)])
    add("sulfur-diamide", [S2, N, N], [(0, 1, 1), (0, 2, 1)])
    add("dimethoxy-sulfane", [S2, O, O, C, C], [(0, 1, 1), (0, 2, 1), (1, 3, 1), (2, 4, 1)])
    # two cumulated units bound to one common sp2 centre (cross-conjugated): a pairing that lets the two units share the middle
    # atom has the right electron count and a five-valent carbon
    cross = [(0, 1, 2), (1, 2, 2), (2, 3, 1), (3, 4, 2), (3, 5, 1), (5, 6, 2), (6, 7, 2)]
    add("diallenyl-ketone", [C, C, C, C, O, C, C, C], cross)
    add("3-methylenehepta-1,2,5,6-tetraene", [C] * 8, cross)
    add("bis-ketenyl-ketone", [O, C, C, C, O, C, C, O], cross)
    # an odd number of unsaturated atoms that only the direct search can solve: 1,1-diallenyl-allene and its mono-vinyl analogue (even)
    add("3,3-diallenyl-allene", [C] * 9, [(0, 1, 2), (1, 2, 2), (2, 3, 1), (3, 4, 2), (4, 5, 2), (2, 6, 1), (6, 7, 2), (7, 8, 2)])
    add("allenyl-vinyl-allene", [C] * 8, [(0, 1, 2), (1, 2, 2), (2, 3, 1), (3, 4, 2), (2, 5, 1), (5, 6, 2), (6, 7, 2)])
    add("cyclopentadiene", [C] * 5, [(0, 1, 2), (1, 2, 1), (2, 3, 2), (3, 4, 1), (4, 0, 1)])
    add("anthracene", [C] * 14, [(0, 1, 2), (1, 2, 1), (2, 3, 2), (3, 4, 1), (4, 5, 2), (5, 0, 1), (4, 6, 1), (6, 7, 2), (7, 8, 1),
                                  (8, 9, 2), (9, 5, 1), (7, 10, 1), (10, 11, 2), (11, 12, 1), (12, 13, 2), (13, 8, 1)])
    return L
