"""Idealised coordination templates, rigid-motion grid, noise and the general-position guard (DESIGN.md 5/C07).

Everything here is computed by the harness from coordinates; the library is never asked."""
from __future__ import annotations

import glob
import itertools
import os
from functools import lru_cache

import numpy as np

from ..model.elements import Z

# covalent radii are DATA of the library (periodic_table); the guard recomputes the cut-off from them
def radii():
    from stereomolgraph.periodic_table import COVALENT_RADII

    return COVALENT_RADII


def cutoff(z1, z2):
    r = radii()
    return 1.2 * (r[z1] + r[z2])


S3 = 3 ** 0.5
TET = np.array([(1, 1, 1), (1, -1, -1), (-1, 1, -1), (-1, -1, 1)], dtype=float) / S3
SQ = np.array([(1, 0, 0), (0, 1, 0), (-1, 0, 0), (0, -1, 0)], dtype=float)
TBP = np.array([(0, 0, 1), (0, 0, -1), (1, 0, 0), (-0.5, S3 / 2, 0), (-0.5, -S3 / 2, 0)], dtype=float)
OCT = np.array([(0, 0, 1), (0, 0, -1), (1, 0, 0), (0, 1, 0), (-1, 0, 0), (0, -1, 0)], dtype=float)

BOND_LEN = {"H": 1.09, "F": 1.36, "Cl": 1.78, "Br": 1.95, "I": 2.14, "O": 1.43, "N": 1.47}
METAL_LEN = {"H": 1.65, "F": 1.95, "Cl": 2.30, "Br": 2.45, "I": 2.65, "O": 2.0, "N": 2.05}


def _star(centre, ligs, dirs, lens):
    els = [centre] + list(ligs)
    xyz = [np.zeros(3)] + [dirs[i] * lens[l] for i, l in enumerate(ligs)]
    return els, np.array(xyz)


@lru_cache(None)
def templates():
    """name -> (elements, coords, kind) ; kind tells which descriptor class the centre must get"""
    T = {}
    T["tet-CHFClBr"] = (*_star("C", ["H", "F", "Cl", "Br"], TET, BOND_LEN), "Tetrahedral")
    T["tet-CH2FCl"] = (*_star("C", ["H", "H", "F", "Cl"], TET, BOND_LEN), "Tetrahedral")
    T["tet-CH4"] = (*_star("C", ["H", "H", "H", "H"], TET, BOND_LEN), "Tetrahedral")
    T["tet-CFClBrI"] = (*_star("C", ["F", "Cl", "Br", "I"], TET, BOND_LEN), "Tetrahedral")
    # see-saw centres (a trigonal bipyramid with one equatorial position empty): four neighbours, not planar, and the centre lies
    # OUTSIDE the tetrahedron spanned by its ligands
    SEESAW = np.array([TBP[0], TBP[1], TBP[2], TBP[3]])
    T["seesaw-SFClBrI"] = (*_star("S", ["F", "Cl", "Br", "I"], SEESAW, {k: v + 0.25 for k, v in BOND_LEN.items()}), "Tetrahedral")
    T["seesaw-SClFIBr"] = (*_star("S", ["Cl", "F", "I", "Br"], SEESAW, {k: v + 0.25 for k, v in BOND_LEN.items()}), "Tetrahedral")
    T["sp-PtFClBrI"] = (*_star("Pt", ["F", "Cl", "Br", "I"], SQ, METAL_LEN), "SquarePlanar")
    T["sp-PtCl2Br2-cis"] = (*_star("Pt", ["Cl", "Cl", "Br", "Br"], SQ, METAL_LEN), "SquarePlanar")
    T["sp-PtCl2Br2-trans"] = (*_star("Pt", ["Cl", "Br", "Cl", "Br"], SQ, METAL_LEN), "SquarePlanar")
    T["tbp-PHFClBrI"] = (*_star("P", ["H", "F", "Cl", "Br", "I"], TBP, {k: v + 0.25 for k, v in BOND_LEN.items()}), "TrigonalBipyramidal")
    T["tbp-PF2Cl3"] = (*_star("P", ["F", "F", "Cl", "Cl", "Cl"], TBP, {k: v + 0.25 for k, v in BOND_LEN.items()}), "TrigonalBipyramidal")
    T["tbp-PF5"] = (*_star("P", ["F"] * 5, TBP, {k: v + 0.25 for k, v in BOND_LEN.items()}), "TrigonalBipyramidal")
    T["oct-WHFClBrIO"] = (*_star("W", ["H", "F", "Cl", "Br", "I", "O"], OCT, METAL_LEN), "Octahedral")
    T["oct-WF3Cl3-fac"] = (*_star("W", ["F", "Cl", "F", "F", "Cl", "Cl"], OCT, METAL_LEN), "Octahedral")
    T["oct-WF6"] = (*_star("W", ["F"] * 6, OCT, METAL_LEN), "Octahedral")
    # planar bonds: X(2) Y(3) on C0, Z(4) W(5) on C1 ; C=C 1.34
    def ethene(x, y, z, w):
        c0, c1 = np.array([-0.67, 0, 0]), np.array([0.67, 0, 0])
        d = lambda ang: np.array([np.cos(np.deg2rad(ang)), np.sin(np.deg2rad(ang)), 0.0])  # noqa: E731
        xyz = [c0, c1, c0 + BOND_LEN[x] * d(120), c0 + BOND_LEN[y] * d(240), c1 + BOND_LEN[z] * d(60), c1 + BOND_LEN[w] * d(300)]
        return ["C", "C", x, y, z, w], np.array(xyz), "PlanarBond"

    T["pb-C2H4"] = ethene("H", "H", "H", "H")
    T["pb-Z-CHF=CHCl"] = ethene("F", "H", "Cl", "H")
    T["pb-E-CHF=CHCl"] = ethene("F", "H", "H", "Cl")
    T["pb-CFCl=CBrI"] = ethene("F", "Cl", "Br", "I")
    return T


@lru_cache(None)
def repo_xyz():
    """parsable single-frame XYZ files of the repository's test data: name -> (elements, coords)"""
    out = {}
    base = "/repo/tests/unit/data"
    src = os.environ.get("SMG_SRC")
    if src and os.path.isdir(os.path.join(os.path.dirname(src), "tests/unit/data")):
        base = os.path.join(os.path.dirname(src), "tests/unit/data")
    for p in sorted(glob.glob(base + "/**/*.xyz", recursive=True)):
        try:
            lines = open(p).read().splitlines()
            n = int(lines[0].split()[0])
            body = [l.split() for l in lines[2:2 + n]]
            if len(body) != n or any(len(b) < 4 for b in body):
                continue
            if len([l for l in lines if l.strip()]) > n + 2:
                continue  # multi-frame
            els = [b[0] for b in body]
            xyz = np.array([[float(x) for x in b[1:4]] for b in body])
            if all(e in Z for e in els):
                out[os.path.relpath(p, base)] = (els, xyz)
        except Exception:
            continue
    return out


def sn2_triple():
    """synthetic F- + CH3Cl -> FCH3 + Cl- : reactant, product and trigonal-bipyramidal transition state over the atoms
    C0 H1 H2 H3 F4 Cl5 (the centre has five neighbours only in the union of reactant and product bonds)"""
    els = ["C", "H", "H", "H", "F", "Cl"]
    ang = [0.0, 120.0, 240.0]

    def hs(z, r):
        return [np.array([r * np.cos(np.deg2rad(a)), r * np.sin(np.deg2rad(a)), z]) for a in ang]

    R = np.array([np.zeros(3)] + hs(0.364, 1.028) + [np.array([0, 0, 3.3]), np.array([0, 0, -1.78])])
    P = np.array([np.zeros(3)] + hs(-0.364, 1.028) + [np.array([0, 0, 1.36]), np.array([0, 0, -3.5])])
    T = np.array([np.zeros(3)] + hs(0.02, 1.07) + [np.array([0, 0, 1.95]), np.array([0, 0, -2.35])])
    return (els, R), (els, P), (els, T)


def robustly_nonplanar(points, threshold=1.0, margin=0.05):
    """some 4-subset has all four apex-to-plane distances above the threshold: every evaluation order says 'not planar'"""
    for q in itertools.combinations(range(len(points)), 4):
        ds = apex_distances([points[i] for i in q])
        if all(d is not None and d > threshold + margin for d in ds):
            return True
    return False


SMILES = ["C[C@H](F)Cl", "C[C@@H](O)C(=O)O", "F/C=C/Cl", "F/C=C\\Cl", "C1CC1", "c1ccccc1", "CC(=O)N", "C[C@H](N)C(=O)O",
          "O=C=O", "CC#N", "C[C@H]1CC[C@@H](C)CC1", "CS(=O)C", "OC[C@H](O)C=O", "C/C=C/C=C/C", "c1ccncc1", "C1=CCCCC1",
          "CC1=C(C)C1", "FC1=C(Cl)C1", "C/C(Cl)=C/C", "F/C(Cl)=C(/Br)I", "C=C1CC1", "C1=CCC1"]


@lru_cache(None)
def embedded(seeds=(1,)):
    """RDKit-embedded small organics: name -> (elements, coords).  Fixed list, fixed embedding seeds."""
    from rdkit import Chem
    from rdkit.Chem import AllChem

    out = {}
    for smi in SMILES:
        mol = Chem.AddHs(Chem.MolFromSmiles(smi))
        for s in seeds:
            if AllChem.EmbedMolecule(mol, randomSeed=s) != 0:
                continue
            conf = mol.GetConformer()
            els = [a.GetSymbol() for a in mol.GetAtoms()]
            xyz = np.array([[conf.GetAtomPosition(i).x, conf.GetAtomPosition(i).y, conf.GetAtomPosition(i).z]
                            for i in range(mol.GetNumAtoms())])
            out[f"{smi}#{s}"] = (els, xyz)
    return out


# ---- rigid motions ---------------------------------------------------------------------------------------------------

@lru_cache(None)
def cube_rotations():
    R = []
    for perm in itertools.permutations(range(3)):
        for signs in itertools.product((1, -1), repeat=3):
            M = np.zeros((3, 3))
            for i, (p, s) in enumerate(zip(perm, signs)):
                M[i, p] = s
            if np.linalg.det(M) > 0:
                R.append(M)
    assert len(R) == 24
    return R


def generic_rotation(seed, k=0):
    rng = np.random.RandomState(7919 * (seed + 1) + 104729 * k)
    A = rng.normal(size=(3, 3))
    Q, Rr = np.linalg.qr(A)
    Q = Q @ np.diag(np.sign(np.diag(Rr)))
    if np.linalg.det(Q) < 0:
        Q[:, 0] = -Q[:, 0]
    return Q


def translation(seed, k=0):
    rng = np.random.RandomState(15485863 * (seed + 1) + k)
    return rng.uniform(-15, 15, size=3)


REFLECTIONS = [np.diag([-1.0, 1, 1]), np.diag([1.0, -1, 1]), np.diag([1.0, 1, -1])]


def noise(n, sigma, seed, k=0):
    if sigma == 0:
        return np.zeros((n, 3))
    rng = np.random.RandomState(32452843 * (seed + 1) + 17 * k + int(sigma * 1000))
    return rng.normal(scale=sigma, size=(n, 3))


# ---- general position guard --------------------------------------------------------------------------------------------

def neighbours(els, xyz):
    """harness-side connectivity (distance below 1.2 x sum of radii)"""
    z = [Z[e] for e in els]
    n = len(els)
    D = np.linalg.norm(xyz[:, None, :] - xyz[None, :, :], axis=-1)
    nb = {i: set() for i in range(n)}
    for i in range(n):
        for j in range(i + 1, n):
            if D[i, j] < cutoff(z[i], z[j]):
                nb[i].add(j)
                nb[j].add(i)
    return nb, D


def apex_distances(pts):
    """the four distances of each point of a 4-set from the plane through the other three"""
    out = []
    for i in range(4):
        o = [pts[j] for j in range(4) if j != i]
        nrm = np.cross(o[0] - o[1], o[2] - o[1])
        ln = np.linalg.norm(nrm)
        if ln < 1e-9:
            out.append(None)  # degenerate (collinear) triple
            continue
        out.append(abs(np.dot(nrm / ln, pts[i] - o[1])))
    return out


def general_position(els, xyz, dist_margin=0.02, plane_margin=0.05, threshold=1.0):
    """(ok, reason).  A geometry is in general position when no interatomic distance is within 2% of its
    bonding cut-off and every 4-set of points the perception code may test for planarity has all four
    apex-to-plane distances on the same side of the 1.0 A threshold, at least plane_margin away from it."""
    z = [Z[e] for e in els]
    nb, D = neighbours(els, xyz)
    n = len(els)
    for i in range(n):
        for j in range(i + 1, n):
            c = cutoff(z[i], z[j])
            if abs(D[i, j] - c) < dist_margin * c:
                return False, f"distance {i}-{j} on the bonding threshold"
    foursets = set()
    for a in range(n):
        k = len(nb[a])
        if k in (4, 5, 6):
            for q in itertools.combinations(sorted(nb[a]), 4):
                foursets.add(q)
        if k == 3:
            for b in nb[a]:
                sec = nb[b] - {a}
                if len(sec) == 2:
                    six = sorted((nb[a] - {b}) | {a, b} | sec)
                    if len(six) == 6:
                        for q in itertools.combinations(six, 4):
                            foursets.add(q)
    for q in foursets:
        ds = apex_distances([xyz[i] for i in q])
        if any(d is None for d in ds):
            return False, f"4-set {q} contains a collinear triple"
        sides = {d > threshold for d in ds}
        if len(sides) > 1 or any(abs(d - threshold) < plane_margin for d in ds):
            return False, f"4-set {q} on the planarity threshold"
    # handedness / E-Z signs must not be near zero: covered by the planarity margin for 4-sets; for planar bonds the
    # projection of the two substituent vectors must not be near orthogonal
    for a in range(n):
        if len(nb[a]) == 3:
            for b in nb[a]:
                sec = sorted(nb[b] - {a})
                fst = sorted(nb[a] - {b})
                if len(sec) == 2 and len(fst) == 2:
                    u = xyz[fst[0]] - xyz[fst[1]]
                    v = xyz[sec[0]] - xyz[sec[1]]
                    c = abs(np.dot(u, v)) / (np.linalg.norm(u) * np.linalg.norm(v))
                    if c < 0.05:
                        return False, f"substituent vectors of bond {a}-{b} near orthogonal"
    return True, ""
